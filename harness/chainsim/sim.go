// Package chainsim drives a world.World with rapid-generated transactions of every kind and keeps
// the generator-side books (which confidential outputs exist, who owns them, what was issued or
// destroyed by design) that the conservation / double-spend / determinism / mempool checks need.
package chainsim

import (
	"fmt"
	"math/big"
	"os"
	"path/filepath"
	"sort"

	cfg "github.com/lianxiangcloud/linkchain/config"
	"github.com/lianxiangcloud/linkchain/libs/common"
	"github.com/lianxiangcloud/linkchain/libs/crypto"
	lktypes "github.com/lianxiangcloud/linkchain/libs/cryptonote/types"
	"github.com/lianxiangcloud/linkchain/libs/ser"
	"github.com/lianxiangcloud/linkchain/state"
	"github.com/lianxiangcloud/linkchain/types"
	"pgregory.net/rapid"

	"verifharness/world"
)

// Ether is 1e18.
var Ether = big.NewInt(1e18)

// E returns n ether.
func E(n int64) *big.Int { return new(big.Int).Mul(big.NewInt(n), Ether) }

// UTXOFee is the minimum fee of a confidential-to-confidential transaction under the default coefficient.
var UTXOFee = new(big.Int).Mul(big.NewInt(5e8), big.NewInt(types.ParGasPrice))

// Hand-assembled EVM runtime code used as genesis contracts.
var (
	// always REVERT
	CodeReverter = common.FromHex("60006000fd")
	// CALL(gas, to=calldata[0:32], value=callvalue) ; STOP   — forwards the value it receives
	CodeForwarder = common.FromHex("6000600060006000346000355af100")
	// called with arguments: SELFDESTRUCT(calldata[0:32]); called without (a plain payment, a forwarder's inner call): STOP, the value stays
	//   CALLDATASIZE ISZERO PUSH1 9 JUMPI PUSH1 0 CALLDATALOAD SELFDESTRUCT JUMPDEST STOP
	CodeSuicider = common.FromHex("3615600957600035ff5b00")
	// answers every call with the 32-byte word 8: a token contract's decimals() - makes the token usable in confidential
	// transactions with a commitment unit of one token unit   (PUSH1 8 PUSH1 0 MSTORE PUSH1 32 PUSH1 0 RETURN)
	CodeDecimals8 = common.FromHex("60086000526020" + "6000f3")
	// SSTORE(key=calldata[0:32], value=calldata[32:64]) ; STOP   - contract storage: written, overwritten, cleared (value 0)
	CodeStore = common.FromHex("6020356000355500")
	// CALL(gas, to=calldata[0:32], value=callvalue, args=calldata[32:64]) then REVERT: whatever the callee did - a self-destruct included - is undone
	//   CALLDATASIZE 0 0 CALLDATACOPY ; 0 0 0x20 0x20 CALLVALUE MLOAD(0) GAS CALL ; POP 0 0 REVERT
	CodeCallArgThenRevert = common.FromHex("366000600037" + "6000600060206020346000515af1" + "5060006000fd")
	// ISSUE(calldata[0:32]) ; TRANSFERTOKEN(to=caller, token=address(this), amount=calldata[0:32]) ; STOP
	CodeIssuer = common.FromHex("600035e033306000" + "35e300")
	// CALL(gas, to=calldata[0:32], value=callvalue) then REVERT — inner transfer must be undone
	CodeForwardThenRevert = common.FromHex("6000600060006000346000355af15060006000fd")
)

// InitCode wraps runtime code into deployment code.
func InitCode(runtime []byte) []byte {
	n := len(runtime)
	if n > 255 {
		panic("runtime too long")
	}
	// PUSH1 n DUP1 PUSH1 0x0b PUSH1 0 CODECOPY PUSH1 0 RETURN
	pre := []byte{0x60, byte(n), 0x80, 0x60, 0x0b, 0x60, 0x00, 0x39, 0x60, 0x00, 0xf3}
	return append(pre, runtime...)
}

// Options selects what a generated chain contains.
type Options struct {
	IsTrie      *bool // nil = generated
	NumAccts    int   // 0 = generated (2..5)
	NumWallets  int   // 0 = generated (1..3)
	Contracts   bool
	Tokens      bool
	MempoolCfg  *cfg.MempoolConfig
	RichBalance bool // balances large enough for confidential fees
	AllRich     bool // every account is rich
	Wasm        bool // a WASM contract at an inner-contract address, callable and upgradable (upgrade signer registered)
	Candidates  bool // elected validator candidates in the genesis (so that evidence in blocks has somebody to score)
	MultiSign   bool // four validators known to the application; MultiSignAccountTx can rotate the upgrade signer set (implies an upgrade signer)
	RealCache   bool // keep the mempool's tx cache (4 heaps of 100k pre-sized slots and 4 never-ending goroutines per node)
}

// OutRef is a confidential output on chain.
type OutRef struct {
	world.RingMember
	Token  common.Address
	Height uint64
}

// Sim is a chain under generation.
type Sim struct {
	W         *world.World
	Spec      *world.Spec
	Accts     []world.Acct
	Wallets   []*world.Wallet
	Tokens    []common.Address
	Contracts map[string]common.Address
	Universe  map[common.Address]struct{}
	Outs      map[common.Address][]OutRef // by token, index == global index
	KeyImages map[lktypes.Key]int         // committed key image -> count

	InitialNative  *big.Int
	InitialToken   map[common.Address]*big.Int
	WasmAddr       common.Address              // the WASM contract of Options.Wasm
	WasmCodes      map[string][]byte           // test contracts of the repository (vm/wasm/wasm-run)
	Upgrader       world.Acct                  // the registered upgrade signer
	forceCreate    map[common.Address][]byte   // the account's next transaction is the creation whose address was just pre-funded
	forcePay       bool                        // the next account transaction (probably) pays the self-destructing contract: it follows an undone self-destruct
	blkPaid        bool                        // generated since the last commit: a payment to the self-destructing contract ...
	blkFwdPaid     bool                        // ... through a forwarder (whether the inner call succeeded the books cannot know) ...
	blkKill        bool                        // ... a self-destruct ...
	blkSelfKill    bool                        // ... in its own favour (the books know the destroyed amount only if payment and self-destruct do not share a block)
	ValKeys        []crypto.PrivKeyEd25519     // the validators whose signatures make a MultiSignAccountTx (Options.MultiSign)
	SignerSet      []world.Acct                // the committed multi-signer set for contract upgrades (each power 1, minimum 1)
	UnderpayRate   int                         // > 0: one confidential spend in UnderpayRate pays LESS than the required fee (it must never be offered to a proposer)
	BurntAfterKill []string                    // payments that reached the contract after it had self-destructed earlier in the SAME block (they are destroyed; counted in Destroyed)
	CandKeys       []crypto.PubKey             // elected candidates of the genesis (Options.Candidates), then one stranger
	Issued         map[common.Address]*big.Int // by design: ISSUE
	Destroyed      map[common.Address]*big.Int // by design: self-destruct to self (native + tokens)
	Log            []string
}

func addrOf(s string) common.Address { return common.BytesToAddress(crypto.Keccak256([]byte(s))[12:]) }

// New generates a genesis and opens a node over it.
func New(t *rapid.T, o Options) *Sim {
	s := &Sim{
		Universe: map[common.Address]struct{}{}, Outs: map[common.Address][]OutRef{}, KeyImages: map[lktypes.Key]int{},
		InitialNative: new(big.Int), InitialToken: map[common.Address]*big.Int{}, Issued: map[common.Address]*big.Int{}, Destroyed: map[common.Address]*big.Int{},
		Contracts: map[string]common.Address{},
	}
	isTrie := rapid.Bool().Draw(t, "isTrie")
	if o.IsTrie != nil {
		isTrie = *o.IsTrie
	}
	na := o.NumAccts
	if na == 0 {
		na = rapid.IntRange(2, 5).Draw(t, "naccts")
	}
	nw := o.NumWallets
	if nw == 0 {
		nw = rapid.IntRange(1, 3).Draw(t, "nwallets")
	}
	spec := &world.Spec{IsTrie: isTrie, Mempool: o.MempoolCfg}
	if spec.Mempool == nil && !o.RealCache {
		mc := world.DefaultMempoolConfig()
		mc.CacheSize = 0 // no-op cache: the cache only de-duplicates submissions, which these checks do not rely on
		spec.Mempool = mc
	}
	if o.Tokens {
		nt := rapid.IntRange(1, 3).Draw(t, "ntokens")
		for i := 0; i < nt; i++ {
			tok := addrOf(fmt.Sprintf("plain-token-%d", i))
			s.Tokens = append(s.Tokens, tok)
			// the token's contract answers decimals(): the token can enter the confidential pool
			spec.Accounts = append(spec.Accounts, world.GenesisAccount{Addr: tok, Code: CodeDecimals8, Balance: big.NewInt(0), Tokens: map[common.Address]*big.Int{}})
			s.Universe[tok] = struct{}{}
		}
	}
	for i := 0; i < na; i++ {
		a := world.DetAcct(uint64(100 + i))
		s.Accts = append(s.Accts, a)
		var bal *big.Int
		switch rapid.IntRange(0, 5).Draw(t, fmt.Sprintf("balshape%d", i)) {
		case 0:
			bal = big.NewInt(0)
		case 1:
			bal = new(big.Int).Mul(big.NewInt(int64(rapid.IntRange(1, 999).Draw(t, "smallbal"))), big.NewInt(1e15))
		default:
			bal = E(int64(rapid.IntRange(100, 100000).Draw(t, fmt.Sprintf("bal%d", i))))
		}
		if (o.RichBalance && i == 0) || o.AllRich {
			bal = E(1000000)
		}
		ga := world.GenesisAccount{Addr: a.Addr, Balance: bal, Tokens: map[common.Address]*big.Int{}}
		for ti, tok := range s.Tokens {
			// at least one account holds >= 2 different tokens so the sorted map encoding matters
			if i == 0 || rapid.Bool().Draw(t, fmt.Sprintf("hastok%d_%d", i, ti)) {
				amt := E(int64(rapid.IntRange(1, 5000).Draw(t, fmt.Sprintf("tok%d_%d", i, ti))))
				ga.Tokens[tok] = amt
				if s.InitialToken[tok] == nil {
					s.InitialToken[tok] = new(big.Int)
				}
				s.InitialToken[tok].Add(s.InitialToken[tok], amt)
			}
		}
		s.InitialNative.Add(s.InitialNative, bal)
		spec.Accounts = append(spec.Accounts, ga)
		s.Universe[a.Addr] = struct{}{}
	}
	if o.Contracts {
		names := []string{"reverter", "forwarder", "suicider", "issuer", "fwdrevert", "killrevert", "store"}
		for _, name := range names {
			ad := addrOf("contract-" + name)
			s.Contracts[name] = ad
			s.Universe[ad] = struct{}{}
		}
		codes := map[string][]byte{"reverter": CodeReverter, "forwarder": CodeForwarder, "suicider": CodeSuicider, "issuer": CodeIssuer, "fwdrevert": CodeForwardThenRevert, "killrevert": CodeCallArgThenRevert, "store": CodeStore}
		for _, name := range names {
			ga := world.GenesisAccount{Addr: s.Contracts[name], Code: codes[name], Balance: big.NewInt(0), Tokens: map[common.Address]*big.Int{}}
			if name == "suicider" {
				// give the self-destructing contract holdings to move or destroy
				ga.Balance = E(int64(rapid.IntRange(0, 50).Draw(t, "suiciderbal")))
				s.InitialNative.Add(s.InitialNative, ga.Balance)
				for ti, tok := range s.Tokens {
					amt := E(int64(rapid.IntRange(0, 20).Draw(t, fmt.Sprintf("suicidertok%d", ti))))
					if amt.Sign() > 0 {
						ga.Tokens[tok] = amt
						s.InitialToken[tok].Add(s.InitialToken[tok], amt)
					}
				}
			}
			spec.Accounts = append(spec.Accounts, ga)
		}
	}
	for i := 0; i < nw; i++ {
		s.Wallets = append(s.Wallets, world.NewWallet(uint64(500+i), 2))
	}
	if o.Wasm {
		dir := os.Getenv("VERIF_REPO_DIR")
		if dir == "" {
			dir = "/repo"
		}
		s.WasmCodes = map[string][]byte{}
		for _, name := range []string{"log", "prints", "getbalance"} {
			b, err := os.ReadFile(filepath.Join(dir, "vm/wasm/wasm-run", name+".wasm"))
			if err != nil {
				t.Fatalf("wasm test contract: %v", err)
			}
			s.WasmCodes[name] = b
		}
		s.WasmAddr = cfg.ContractCommitteeAddr // an inner contract: only those can be upgraded
		s.Upgrader = world.DetAcct(900)
		spec.UpgradeSigner = &s.Upgrader
		spec.Accounts = append(spec.Accounts, world.GenesisAccount{Addr: s.WasmAddr, Code: s.WasmCodes["log"], Balance: big.NewInt(0), Tokens: map[common.Address]*big.Int{}})
		s.Universe[s.WasmAddr] = struct{}{}
		s.Universe[s.Upgrader.Addr] = struct{}{}
	}
	if o.MultiSign {
		for i := 0; i < 4; i++ {
			k := crypto.GenPrivKeyEd25519FromSecret([]byte(fmt.Sprintf("chainsim-validator-%d", i)))
			s.ValKeys = append(s.ValKeys, k)
			spec.Validators = append(spec.Validators, &types.Validator{Address: k.PubKey().Address(), PubKey: k.PubKey(), VotingPower: 1})
		}
		if spec.UpgradeSigner == nil {
			s.Upgrader = world.DetAcct(900)
			spec.UpgradeSigner = &s.Upgrader
			s.Universe[s.Upgrader.Addr] = struct{}{}
		}
		s.SignerSet = []world.Acct{s.Upgrader}
		s.Universe[types.MultiSignNonceAddr] = struct{}{}
	}
	if o.Candidates {
		nc := rapid.IntRange(1, 3).Draw(t, "ncandidates")
		for i := 0; i < nc; i++ {
			pub := crypto.GenPrivKeyEd25519FromSecret([]byte(fmt.Sprintf("candidate-%d", i))).PubKey()
			s.CandKeys = append(s.CandKeys, pub)
			spec.Candidates = append(spec.Candidates, world.CandidateSeed{Pub: pub, CoinBase: addrOf(fmt.Sprintf("candidate-coinbase-%d", i)), VotingPower: 1,
				Score: int64(rapid.IntRange(0, 5).Draw(t, "candscore")), ProduceInfo: rapid.IntRange(-3, 3).Draw(t, "candproduce")})
		}
		s.CandKeys = append(s.CandKeys, crypto.GenPrivKeyEd25519FromSecret([]byte("not-a-candidate")).PubKey())
		s.Universe[cfg.ContractCandidatesAddr] = struct{}{}
	}
	for _, a := range []common.Address{common.EmptyAddress, cfg.ContractFoundationAddr, addrOf("sink-1"), addrOf("sink-2")} {
		s.Universe[a] = struct{}{}
	}
	w, err := world.New(spec)
	if err != nil {
		t.Fatalf("world.New: %v", err)
	}
	s.W, s.Spec = w, spec
	return s
}

// Sinks are plain recipient addresses nobody holds a key for.
func (s *Sim) Sinks() []common.Address { return []common.Address{addrOf("sink-1"), addrOf("sink-2")} }

// Recipients returns every plain address a transfer may go to.
func (s *Sim) Recipients() []common.Address {
	var r []common.Address
	for _, a := range s.Accts {
		r = append(r, a.Addr)
	}
	return append(r, s.Sinks()...)
}

func (s *Sim) logf(format string, a ...interface{}) {
	if len(s.Log) < 400 {
		s.Log = append(s.Log, fmt.Sprintf(format, a...))
	}
}

// Holdings is an eager snapshot of what an address universe holds.  (A StateDB copy is NOT a snapshot in the
// flat storage mode: committed values are overwritten in place and a copy without dirty objects reads through.)
type Holdings struct {
	Native map[common.Address]*big.Int
	Tokens map[common.Address]map[common.Address]*big.Int
	Nonces map[common.Address]uint64
	Code   map[common.Address]bool // the address has code
	Slots  [StoreSlots]string      // storage slots 0..StoreSlots-1 of the "store" contract (hex)
}

// StoreSlots is the number of storage slots of the "store" contract the generator writes.
const StoreSlots = 4

// Snapshot reads the committed holdings of every address in the universe now.
func (s *Sim) Snapshot() *Holdings {
	st := s.Committed()
	h := &Holdings{Native: map[common.Address]*big.Int{}, Tokens: map[common.Address]map[common.Address]*big.Int{}, Nonces: map[common.Address]uint64{}, Code: map[common.Address]bool{}}
	for a := range s.Universe {
		h.Native[a] = new(big.Int).Set(st.GetBalance(a))
		h.Code[a] = st.GetCodeSize(a) > 0
		if c, ok := s.Contracts["store"]; ok && c == a {
			for i := 0; i < StoreSlots; i++ {
				h.Slots[i] = fmt.Sprintf("%x", st.GetState(a, common.BigToHash(big.NewInt(int64(i)))))
			}
		}
		h.Nonces[a] = st.GetNonce(a)
		m := map[common.Address]*big.Int{}
		for _, tv := range st.GetTokenBalances(a) {
			if tv.TokenAddr != common.EmptyAddress {
				m[tv.TokenAddr] = new(big.Int).Set(tv.Value)
			}
		}
		h.Tokens[a] = m
	}
	return h
}

// Bal returns the native balance of a in the snapshot (0 if unknown).
func (h *Holdings) Bal(a common.Address) *big.Int {
	if v := h.Native[a]; v != nil {
		return v
	}
	return new(big.Int)
}

// Committed returns a copy of the committed state.
func (s *Sim) Committed() *state.StateDB { return s.W.App.GetLatestStateDB() }

// ------------------------------------------------------------------ transaction generation

// Tx is a generated transaction with what the generator knows about it.
type Tx struct {
	Tx        types.Tx
	Kind      string
	From      common.Address
	Desc      string
	IssueTok  common.Address // issuer call: token and amount minted if the call succeeds
	IssueAmt  *big.Int
	SuicideTo *common.Address
	Underpaid bool   // a confidential spend that pays less than the required fee
	InnerTo   string // forwarding calls: what the inner call reaches ("suicider", "reverter", ... or "" for a plain address)
	KeyImages []lktypes.Key
}

func (s *Sim) amountUpTo(t *rapid.T, max *big.Int, label string) *big.Int {
	if max.Sign() <= 0 {
		return big.NewInt(0)
	}
	switch rapid.IntRange(0, 7).Draw(t, label+"_shape") {
	case 0:
		return big.NewInt(0)
	case 1:
		return big.NewInt(1)
	case 2:
		return new(big.Int).Set(max)
	case 3: // not a multiple of anything nice
		v := new(big.Int).Div(max, big.NewInt(3))
		return v.Add(v, big.NewInt(7))
	default:
		// a fraction of max
		f := int64(rapid.IntRange(1, 1000).Draw(t, label+"_frac"))
		v := new(big.Int).Mul(max, big.NewInt(f))
		return v.Div(v, big.NewInt(1000))
	}
}

// roundUnit rounds v down to a multiple of the commitment unit.
func roundUnit(v *big.Int) *big.Int {
	r := new(big.Int).Div(v, world.UTXOUnit)
	return r.Mul(r, world.UTXOUnit)
}

// GenAccountTx draws an account-based transaction from a harness account at the mempool's next nonce.
// kinds: transfer, token, call-*, create
func (s *Sim) GenAccountTx(t *rapid.T, kinds []string) *Tx {
	ai := rapid.IntRange(0, len(s.Accts)-1).Draw(t, "from")
	from := s.Accts[ai]
	nonce := s.W.App.GetNonce(from.Addr)
	pend := s.W.App.GetPendingStateDB()
	bal := pend.GetBalance(from.Addr)
	kind := rapid.SampledFrom(kinds).Draw(t, "kind")
	var forcedCode []byte
	if c, ok := s.forceCreate[from.Addr]; ok {
		delete(s.forceCreate, from.Addr)
		kind, forcedCode = "create", c
	}
	if s.forcePay {
		s.forcePay = false
		if forcedCode == nil && rapid.IntRange(0, 2).Draw(t, "payafterkill") != 0 {
			kind = "pay-suicider"
		}
	}
	switch kind {
	case "pay-suicider":
		// a payment without arguments to the self-destructing contract: it stays alive and keeps the value (if it is dead the address is a plain one)
		c, ok := s.Contracts["suicider"]
		if !ok || s.blkSelfKill {
			return nil
		}
		s.blkPaid = true
		amt := s.amountUpTo(t, new(big.Int).Div(bal, big.NewInt(8)), "payval")
		gas := types.CalNewAmountGas(amt, types.EverContractLiankeFee) + 100000
		return &Tx{Tx: world.RawTx(from, nonce, &c, amt, gas, world.GasPrice, nil), Kind: kind, From: from.Addr, Desc: fmt.Sprintf("pay-suicider %v nonce %d", amt, nonce)}
	case "call-store":
		// writes one of a few storage slots: a new value, the same value again, or zero (the slot is deleted)
		c, ok := s.Contracts["store"]
		if !ok {
			return nil
		}
		slot := rapid.IntRange(0, StoreSlots-1).Draw(t, "slot")
		val := rapid.SampledFrom([]int64{0, 0, 1, 2, 0x33, 1 << 40}).Draw(t, "slotval")
		data := append(common.LeftPadBytes(big.NewInt(int64(slot)).Bytes(), 32), common.LeftPadBytes(big.NewInt(val).Bytes(), 32)...)
		return &Tx{Tx: world.RawTx(from, nonce, &c, big.NewInt(0), 800000, world.GasPrice, data), Kind: kind, From: from.Addr, Desc: fmt.Sprintf("call-store slot %d = %d nonce %d", slot, val, nonce)}
	case "call-killrevert":
		// a contract makes the self-destructing contract destroy itself in favour of an heir and then reverts: nothing but the fee may move
		c, ok := s.Contracts["killrevert"]
		if !ok {
			return nil
		}
		victim := s.Contracts["suicider"]
		heir := rapid.SampledFrom(append(s.Recipients(), victim)).Draw(t, "heir")
		amt := s.amountUpTo(t, new(big.Int).Div(bal, big.NewInt(4)), "cval")
		gas := uint64(rapid.IntRange(600000, 3000000).Draw(t, "gas"))
		if g := types.CalNewAmountGas(amt, types.EverContractLiankeFee) + 100000; gas < g {
			gas = g
		}
		if rapid.IntRange(0, 4).Draw(t, "tightgas") == 0 {
			gas = types.CalNewAmountGas(amt, types.EverContractLiankeFee) + uint64(rapid.SampledFrom([]int{0, 1, 1000, 21000, 30000, 60000}).Draw(t, "gasabove"))
		}
		data := append(common.LeftPadBytes(victim.Bytes(), 32), common.LeftPadBytes(heir.Bytes(), 32)...)
		s.forcePay = true
		return &Tx{Tx: world.RawTx(from, nonce, &c, amt, gas, world.GasPrice, data), Kind: kind, From: from.Addr, InnerTo: "suicider", Desc: fmt.Sprintf("%s value %v heir %s gas %d nonce %d", kind, amt, heir.Hex()[:8], gas, nonce)}
	case "wasm-call":
		if s.WasmCodes == nil {
			return nil
		}
		return &Tx{Tx: world.RawTx(from, nonce, &s.WasmAddr, big.NewInt(0), 2000000, world.GasPrice, []byte("a|a")), Kind: kind, From: from.Addr, Desc: fmt.Sprintf("wasm-call from %s nonce %d", from.Addr.Hex()[:8], nonce)}
	case "prefund-create":
		// tokens (or coins) are sent to the address the sender's NEXT transaction will create a contract at: the
		// creation must carry over what the address already holds
		code := rapid.SampledFrom([][]byte{CodeReverter, CodeForwarder, CodeSuicider}).Draw(t, "prefundcode")
		ca := crypto.CreateAddress(from.Addr, nonce+1, InitCode(code))
		s.Universe[ca] = struct{}{}
		if s.forceCreate == nil {
			s.forceCreate = map[common.Address][]byte{}
		}
		s.forceCreate[from.Addr] = code
		if len(s.Tokens) > 0 && rapid.IntRange(0, 3).Draw(t, "prefundtoken") != 0 {
			tok := rapid.SampledFrom(s.Tokens).Draw(t, "token")
			amt := s.amountUpTo(t, pend.GetTokenBalance(from.Addr, tok), "tamt")
			return &Tx{Tx: world.TokenTransfer(from, tok, nonce, ca, amt), Kind: kind, From: from.Addr, Desc: fmt.Sprintf("prefund-create: token %s %v to the future contract %s nonce %d", tok.Hex()[:8], amt, ca.Hex()[:8], nonce)}
		}
		amt := s.amountUpTo(t, new(big.Int).Div(bal, big.NewInt(8)), "amt")
		return &Tx{Tx: world.Transfer(from, nonce, ca, amt), Kind: kind, From: from.Addr, Desc: fmt.Sprintf("prefund-create: %v coins to the future contract %s nonce %d", amt, ca.Hex()[:8], nonce)}
	case "transfer":
		to := rapid.SampledFrom(s.Recipients()).Draw(t, "to")
		amt := s.amountUpTo(t, bal, "amt")
		// leave room for the fee most of the time
		fee := new(big.Int).Mul(new(big.Int).SetUint64(world.TransferGas(amt)), world.GasPrice)
		if rapid.IntRange(0, 9).Draw(t, "leavefee") != 0 && new(big.Int).Add(amt, fee).Cmp(bal) > 0 {
			amt = new(big.Int).Sub(bal, fee)
			if amt.Sign() < 0 {
				amt = big.NewInt(0)
			}
		}
		return &Tx{Tx: world.Transfer(from, nonce, to, amt), Kind: kind, From: from.Addr, Desc: fmt.Sprintf("transfer %s->%s %v nonce %d", from.Addr.Hex()[:8], to.Hex()[:8], amt, nonce)}
	case "token":
		if len(s.Tokens) == 0 {
			return nil
		}
		tok := rapid.SampledFrom(s.Tokens).Draw(t, "token")
		to := rapid.SampledFrom(s.Recipients()).Draw(t, "to")
		amt := s.amountUpTo(t, pend.GetTokenBalance(from.Addr, tok), "tamt")
		return &Tx{Tx: world.TokenTransfer(from, tok, nonce, to, amt), Kind: kind, From: from.Addr, Desc: fmt.Sprintf("token %s %s->%s %v nonce %d", tok.Hex()[:8], from.Addr.Hex()[:8], to.Hex()[:8], amt, nonce)}
	case "call-revert", "call-forward", "call-fwdrevert":
		name := map[string]string{"call-revert": "reverter", "call-forward": "forwarder", "call-fwdrevert": "fwdrevert"}[kind]
		c, ok := s.Contracts[name]
		if !ok {
			return nil
		}
		maxv := new(big.Int).Div(bal, big.NewInt(4))
		amt := s.amountUpTo(t, maxv, "cval")
		targets := s.Recipients()
		switch kind {
		case "call-fwdrevert":
			// the inner call may also reach a contract; whatever the inner frame did, the enclosing frame reverts, so nothing may change
			for _, n := range []string{"suicider", "reverter", "forwarder", "issuer"} {
				targets = append(targets, s.Contracts[n])
			}
		case "call-forward":
			// an inner revert or a second forwarding leaves the value at a known address; the self-destructing contract, called
			// without arguments, keeps what it is paid (unless a self-destruct in its own favour shares the block: see blkPaid)
			names := []string{"reverter", "forwarder", "fwdrevert"}
			if !s.blkKill {
				names = append(names, "suicider")
			}
			for _, n := range names {
				targets = append(targets, s.Contracts[n])
			}
		}
		to := rapid.SampledFrom(targets).Draw(t, "fwdto")
		if kind == "call-forward" && to == s.Contracts["suicider"] {
			s.blkPaid, s.blkFwdPaid = true, true
		}
		data := common.LeftPadBytes(to.Bytes(), 32)
		gas := uint64(rapid.IntRange(600000, 3000000).Draw(t, "gas"))
		if g := types.CalNewAmountGas(amt, types.EverContractLiankeFee) + 100000; gas < g {
			gas = g
		}
		if rapid.IntRange(0, 2).Draw(t, "tightgas") == 0 {
			// at and just above the legal minimum: the gas limit covers the transfer gas and the intrinsic gas each, but not
			// necessarily both, or only just
			gas = types.CalNewAmountGas(amt, types.EverContractLiankeFee) + uint64(rapid.SampledFrom([]int{0, 1, 1000, 20999, 21000, 21001, 22000, 30000, 60000}).Draw(t, "gasabove"))
		}
		inner := ""
		for n, a := range s.Contracts {
			if a == to {
				inner = n
			}
		}
		return &Tx{Tx: world.RawTx(from, nonce, &c, amt, gas, world.GasPrice, data), Kind: kind, From: from.Addr, InnerTo: inner, Desc: fmt.Sprintf("%s value %v to %s %s gas %d nonce %d", kind, amt, to.Hex()[:8], inner, gas, nonce)}
	case "call-suicide":
		c, ok := s.Contracts["suicider"]
		if !ok {
			return nil
		}
		targets := append(s.Recipients(), c)
		to := rapid.SampledFrom(targets).Draw(t, "suicideto")
		if s.blkFwdPaid {
			return nil
		}
		s.blkKill = true
		if to == c {
			if s.blkPaid {
				to = s.Sinks()[0]
			} else {
				s.blkSelfKill = true
			}
		}
		data := common.LeftPadBytes(to.Bytes(), 32)
		return &Tx{Tx: world.RawTx(from, nonce, &c, big.NewInt(0), 800000, world.GasPrice, data), Kind: kind, From: from.Addr, SuicideTo: &to, Desc: fmt.Sprintf("suicide to %s nonce %d", to.Hex()[:8], nonce)}
	case "call-issue":
		c, ok := s.Contracts["issuer"]
		if !ok {
			return nil
		}
		amt := big.NewInt(int64(rapid.IntRange(0, 1000000).Draw(t, "issueamt")))
		data := common.LeftPadBytes(amt.Bytes(), 32)
		return &Tx{Tx: world.RawTx(from, nonce, &c, big.NewInt(0), 800000, world.GasPrice, data), Kind: kind, From: from.Addr, IssueTok: c, IssueAmt: amt, Desc: fmt.Sprintf("issue %v nonce %d", amt, nonce)}
	case "create-and-die":
		// a contract whose constructor self-destructs in favour of its creator (init code CALLER SELFDESTRUCT): the account
		// is created and deleted inside one transaction, so the state deletes a key it has never stored.  No value is sent.
		ca := crypto.CreateAddress(from.Addr, nonce, []byte{0x33, 0xff})
		s.Universe[ca] = struct{}{}
		return &Tx{Tx: world.RawTx(from, nonce, nil, big.NewInt(0), 2000000, world.GasPrice, []byte{0x33, 0xff}), Kind: kind, From: from.Addr, Desc: fmt.Sprintf("create-and-die nonce %d", nonce)}
	case "create":
		code := rapid.SampledFrom([][]byte{CodeReverter, CodeForwarder, CodeSuicider}).Draw(t, "createcode")
		if forcedCode != nil {
			code = forcedCode
		}
		maxv := new(big.Int).Div(bal, big.NewInt(8))
		amt := s.amountUpTo(t, maxv, "createval")
		gas := uint64(2000000)
		if g := types.CalNewAmountGas(amt, types.EverContractLiankeFee) + 1000000; gas < g {
			gas = g
		}
		ca := crypto.CreateAddress(from.Addr, nonce, InitCode(code))
		s.Universe[ca] = struct{}{}
		return &Tx{Tx: world.RawTx(from, nonce, nil, amt, gas, world.GasPrice, InitCode(code)), Kind: kind, From: from.Addr, Desc: fmt.Sprintf("create value %v nonce %d", amt, nonce)}
	}
	return nil
}

// Decoys picks up to n committed outputs of the token other than idx.
func (s *Sim) ring(t *rapid.T, token common.Address, real uint64, size int) []world.RingMember {
	outs := s.Outs[token]
	if size > len(outs) {
		size = len(outs)
	}
	pick := map[uint64]struct{}{real: {}}
	for len(pick) < size {
		pick[uint64(rapid.IntRange(0, len(outs)-1).Draw(t, "decoy"))] = struct{}{}
	}
	idx := make([]uint64, 0, len(pick))
	for i := range pick {
		idx = append(idx, i)
	}
	sort.Slice(idx, func(a, b int) bool { return idx[a] < idx[b] })
	var r []world.RingMember
	for _, i := range idx {
		r = append(r, outs[i].RingMember)
	}
	return r
}

// unspent returns the wallet's unspent, committed native outputs.
func unspent(w *world.Wallet, token common.Address) []*world.Owned {
	var r []*world.Owned
	for _, o := range w.Owned {
		if !o.Spent && o.Token == token {
			r = append(r, o)
		}
	}
	return r
}

// GenA2U draws an account-to-confidential transaction (native coin).
func (s *Sim) GenA2U(t *rapid.T) *Tx {
	ai := rapid.IntRange(0, len(s.Accts)-1).Draw(t, "from")
	from := s.Accts[ai]
	nonce := s.W.App.GetNonce(from.Addr)
	bal := s.W.App.GetPendingStateDB().GetBalance(from.Addr)
	nd := rapid.IntRange(1, 3).Draw(t, "ndest")
	var dests []types.DestEntry
	total := new(big.Int)
	budget := new(big.Int).Div(bal, big.NewInt(int64(nd+1)))
	for i := 0; i < nd; i++ {
		w := s.Wallets[rapid.IntRange(0, len(s.Wallets)-1).Draw(t, "wallet")]
		sub := uint64(rapid.IntRange(0, 2).Draw(t, "sub"))
		amt := roundUnit(s.amountUpTo(t, budget, "uamt"))
		if amt.Sign() == 0 && rapid.IntRange(0, 9).Draw(t, "zerook") != 0 {
			amt = new(big.Int).Mul(world.UTXOUnit, big.NewInt(int64(rapid.IntRange(1, 1000000).Draw(t, "units"))))
		}
		if rapid.IntRange(0, 19).Draw(t, "offunit") == 0 {
			amt.Add(amt, big.NewInt(12345)) // not a multiple of the unit: must be refused
		}
		dests = append(dests, w.Dest(sub, amt))
		total.Add(total, amt)
	}
	// fee for account->confidential: the transfer fee on the moved amount
	fee := new(big.Int).Mul(new(big.Int).SetUint64(types.CalNewAmountGas(total, types.EverLiankeFee)), world.GasPrice)
	if rapid.IntRange(0, 19).Draw(t, "lowfee") == 0 {
		fee = new(big.Int).Div(fee, big.NewInt(2))
	}
	in := new(big.Int).Add(total, fee)
	tx, err := world.AccountToUTXO(from, nonce, in, dests, common.EmptyAddress, big.NewInt(0))
	if err != nil {
		return nil
	}
	return &Tx{Tx: tx, Kind: "a2u", From: from.Addr, Desc: fmt.Sprintf("a2u %s in %v -> %d outs fee %v nonce %d", from.Addr.Hex()[:8], in, nd, fee, nonce)}
}

// GenUSpend draws a confidential spend (to confidential and/or one account output).
// If inflate != nil the claimed amount of the first input is raised by it (an attack).
func (s *Sim) GenUSpend(t *rapid.T, inflate *big.Int) *Tx {
	var cands []int
	for i, w := range s.Wallets {
		if len(unspent(w, common.EmptyAddress)) > 0 {
			cands = append(cands, i)
		}
	}
	if len(cands) == 0 {
		return nil
	}
	w := s.Wallets[rapid.SampledFrom(cands).Draw(t, "spender")]
	un := unspent(w, common.EmptyAddress)
	nin := rapid.IntRange(1, min(2, len(un))).Draw(t, "nin")
	first := rapid.IntRange(0, len(un)-1).Draw(t, "firstin")
	ringSize := rapid.IntRange(1, 4).Draw(t, "ringsize")
	var srcs []*types.UTXOSourceEntry
	total := new(big.Int)
	var kis []lktypes.Key
	for k := 0; k < nin; k++ {
		ow := un[(first+k)%len(un)]
		se := ow.Source(s.ring(t, common.EmptyAddress, ow.GlobalIndex, ringSize))
		if k == 0 && inflate != nil {
			se.Amount = new(big.Int).Add(se.Amount, inflate)
		}
		srcs = append(srcs, se)
		total.Add(total, se.Amount)
		kis = append(kis, ow.KeyImage)
	}
	if len(srcs) > 1 && len(srcs[0].Ring) != len(srcs[1].Ring) {
		// mixed ring sizes: only legal when none is 1; keep it simple and equalise
		srcs = srcs[:1]
		total = new(big.Int).Set(srcs[0].Amount)
		kis = kis[:1]
	}
	shape := rapid.SampledFrom([]string{"u2u", "u2u", "u2a", "u2mix"}).Draw(t, "ushape")
	var dests []types.DestEntry
	fee := new(big.Int).Set(UTXOFee)
	// an underpaying spend: short by the whole confidential part, by the whole account part, or by one gas-price step
	short := new(big.Int)
	if s.UnderpayRate > 0 && rapid.IntRange(0, s.UnderpayRate-1).Draw(t, "underpay") == 0 {
		switch rapid.IntRange(0, 2).Draw(t, "shortby") {
		case 0:
			short.Set(UTXOFee)
		case 1:
			short.Set(world.GasPrice)
		default:
			short.Div(UTXOFee, big.NewInt(2))
		}
		shape = rapid.SampledFrom([]string{"u2u", "u2a", "u2mix", "u2mix"}).Draw(t, "ushapeunder")
		if shape == "u2u" {
			fee = roundUnit(new(big.Int).Sub(fee, new(big.Int).Div(UTXOFee, big.NewInt(2))))
		}
	}
	rest := new(big.Int).Sub(total, fee)
	if rest.Sign() <= 0 {
		return nil
	}
	switch shape {
	case "u2u":
		nd := rapid.IntRange(1, 2).Draw(t, "ndest")
		left := new(big.Int).Set(rest)
		for i := 0; i < nd; i++ {
			dw := s.Wallets[rapid.IntRange(0, len(s.Wallets)-1).Draw(t, "dwallet")]
			amt := left
			if i < nd-1 {
				amt = roundUnit(new(big.Int).Div(left, big.NewInt(2)))
			}
			dests = append(dests, dw.Dest(uint64(rapid.IntRange(0, 2).Draw(t, "dsub")), amt))
			left = new(big.Int).Sub(left, amt)
		}
	case "u2a":
		// fee for confidential->account is the transfer fee on the account amount; it must be a multiple of the gas price
		to := rapid.SampledFrom(s.Recipients()).Draw(t, "uto")
		amt := roundUnit(new(big.Int).Div(new(big.Int).Mul(rest, big.NewInt(9)), big.NewInt(10)))
		need := new(big.Int).Mul(new(big.Int).SetUint64(types.CalNewAmountGas(amt, types.EverLiankeFee)), world.GasPrice)
		if short.Sign() > 0 {
			if short.Cmp(need) >= 0 {
				short.Set(world.GasPrice)
			}
			amt = new(big.Int).Sub(total, new(big.Int).Sub(need, short))
		} else if rapid.IntRange(0, 3).Draw(t, "tightfee") == 0 || new(big.Int).Sub(total, amt).Cmp(need) < 0 {
			amt = new(big.Int).Sub(total, need) // exactly the required fee
		} else {
			// any larger fee that is a multiple of the gas price
			f := new(big.Int).Sub(total, amt)
			f.Div(f, world.GasPrice).Mul(f, world.GasPrice)
			amt = new(big.Int).Sub(total, f)
		}
		if amt.Cmp(world.UTXOUnit) < 0 {
			return nil
		}
		dests = append(dests, &types.AccountDestEntry{To: to, Amount: amt})
	case "u2mix":
		to := rapid.SampledFrom(s.Recipients()).Draw(t, "uto")
		a := roundUnit(new(big.Int).Div(rest, big.NewInt(3)))
		need := new(big.Int).Mul(new(big.Int).SetUint64(types.CalNewAmountGas(a, types.EverLiankeFee)), world.GasPrice)
		need.Add(need, UTXOFee)
		need.Sub(need, short)
		u := new(big.Int).Sub(new(big.Int).Sub(total, a), need)
		if a.Cmp(world.UTXOUnit) < 0 || u.Cmp(world.UTXOUnit) < 0 {
			return nil
		}
		dw := s.Wallets[rapid.IntRange(0, len(s.Wallets)-1).Draw(t, "dwallet")]
		dests = append(dests, dw.Dest(0, u), &types.AccountDestEntry{To: to, Amount: a})
	}
	tx, err := w.SpendUTXO(srcs, dests, common.EmptyAddress, nil)
	if err != nil {
		return nil
	}
	under := ""
	if short.Sign() > 0 {
		under = fmt.Sprintf(" UNDERPAYING by %v", short)
	}
	return &Tx{Tx: tx, Kind: shape, KeyImages: kis, Underpaid: short.Sign() > 0, Desc: fmt.Sprintf("%s %d in (ring %d) total %v -> %d dests%s", shape, len(srcs), len(srcs[0].Ring), total, len(dests), under)}
}

// ------------------------------------------------------------------ committing and bookkeeping

// Commit commits a block on the node and updates the books: new confidential outputs are indexed and
// offered to every wallet, spent key images are recorded, designed supply changes are accounted.
func (s *Sim) Commit(block *types.Block, gen map[common.Hash]*Tx) error {
	pre := s.Snapshot()
	if err := s.W.Commit(block); err != nil {
		return err
	}
	return s.AfterCommit(block, gen, pre)
}

// AfterCommit is the bookkeeping half of Commit (for callers that commit through another path).
func (s *Sim) AfterCommit(block *types.Block, gen map[common.Hash]*Tx, pre *Holdings) error {
	s.blkPaid, s.blkFwdPaid, s.blkKill, s.blkSelfKill, s.forcePay = false, false, false, false, false
	killed := false // the self-destructing contract has destroyed itself in an earlier transaction of this block
	receipts := s.W.BlockStore.GetReceipts(block.Height)
	for i, tx := range block.Data.Txs {
		ok := receipts != nil && i < len(*receipts) && (*receipts)[i].Status == types.ReceiptStatusSuccessful
		if g := gen[tx.Hash()]; g != nil {
			if g.IssueAmt != nil && ok && g.IssueAmt.Sign() > 0 {
				if s.Issued[g.IssueTok] == nil {
					s.Issued[g.IssueTok] = new(big.Int)
				}
				s.Issued[g.IssueTok].Add(s.Issued[g.IssueTok], g.IssueAmt)
			}
			if g.Kind == "pay-suicider" && ok && killed {
				// the state is finalised once per block, so the self-destructed object lives on (marked, with its code) until the
				// block ends and is deleted then, together with whatever later transactions of the block paid it
				v := g.Tx.(*types.Transaction).Value()
				if v.Sign() > 0 {
					s.addDestroyed(common.EmptyAddress, v)
					s.BurntAfterKill = append(s.BurntAfterKill, fmt.Sprintf("block %d: tx %d pays %v to the contract that self-destructed earlier in the block", block.Height, i, v))
				}
			}
			if g.SuicideTo != nil && ok && pre != nil && pre.Code[s.Contracts["suicider"]] {
				killed = true
			}
			if g.SuicideTo != nil && ok && *g.SuicideTo == s.Contracts["suicider"] && pre != nil && pre.Code[s.Contracts["suicider"]] {
				// self-destruct in favour of itself: the holdings it had when the tx ran are destroyed by design.
				// The contract cannot receive anything earlier in the same block from the generator's repertoire
				// except by another suicide/forward; use the pre-block state plus what this block credited so far.
				// To stay exact the generator only lets one suicide-to-self happen per block (see Gen), so the
				// pre-block holdings are the destroyed amount.
				c := s.Contracts["suicider"]
				s.addDestroyed(common.EmptyAddress, pre.Bal(c))
				for tok, v := range pre.Tokens[c] {
					s.addDestroyed(tok, v)
				}
			}
		}
		if m, isM := tx.(*types.MultiSignAccountTx); isM && len(s.ValKeys) > 0 { // (a committed rotation takes effect whatever its receipt says)
			var set []world.Acct
			for _, e := range m.Signers {
				for _, c := range s.signerCandidates() {
					if c.Addr == e.Addr {
						set = append(set, c)
					}
				}
			}
			s.SignerSet = set
		}
		utx, isU := tx.(*types.UTXOTransaction)
		if !isU {
			continue
		}
		for _, ki := range utx.GetInputKeyImages() {
			s.KeyImages[*ki]++
			for _, w := range s.Wallets {
				for _, o := range w.Owned {
					if o.KeyImage == *ki {
						o.Spent = true
					}
				}
			}
		}
		first := uint64(len(s.Outs[utx.TokenID]))
		n := 0
		for _, od := range utx.GetOutputData(block.Height) {
			s.Outs[utx.TokenID] = append(s.Outs[utx.TokenID], OutRef{RingMember: world.RingMember{GlobalIndex: first + uint64(n), OTAddr: od.OTAddr, Commit: od.Commit}, Token: utx.TokenID, Height: block.Height})
			n++
		}
		if n > 0 {
			owners := 0
			for _, w := range s.Wallets {
				found, err := w.ScanTx(utx, block.Height, first)
				if err != nil {
					return fmt.Errorf("scan: %v", err)
				}
				owners += len(found)
			}
			if owners != n {
				return fmt.Errorf("tx %s created %d confidential outputs but harness wallets recognise %d", tx.Hash().Hex(), n, owners)
			}
		}
	}
	return nil
}

func (s *Sim) addDestroyed(tok common.Address, v *big.Int) {
	if v == nil || v.Sign() == 0 {
		return
	}
	if s.Destroyed[tok] == nil {
		s.Destroyed[tok] = new(big.Int)
	}
	s.Destroyed[tok].Add(s.Destroyed[tok], v)
}

// Supply sums, over the committed state, every account's holdings of a token (EmptyAddress = native coin)
// plus the generator-known value of unspent confidential outputs.  In trie mode the account set is the
// whole state (enumerated); in flat mode it is the generator's address universe.
func (s *Sim) Supply(token common.Address) (accounts, confidential *big.Int, enumerated bool) {
	st := s.Committed()
	accounts = new(big.Int)
	addrs := map[common.Address]struct{}{}
	for a := range s.Universe {
		addrs[a] = struct{}{}
	}
	if s.Spec.IsTrie {
		func() {
			defer func() { recover() }()
			for hexAddr := range st.RawDump().Accounts {
				addrs[common.HexToAddress(hexAddr)] = struct{}{}
			}
			enumerated = true
		}()
	}
	for a := range addrs {
		if token == common.EmptyAddress {
			accounts.Add(accounts, st.GetBalance(a))
		} else {
			accounts.Add(accounts, st.GetTokenBalance(a, token))
		}
	}
	confidential = new(big.Int)
	for _, w := range s.Wallets {
		for _, o := range w.Owned {
			if !o.Spent && o.Token == token {
				confidential.Add(confidential, o.Amount)
			}
		}
	}
	return
}

// UniverseOutside reports state accounts (trie mode) that hold value but are not in the generator's universe.
func (s *Sim) UniverseOutside() []common.Address {
	if !s.Spec.IsTrie {
		return nil
	}
	var out []common.Address
	func() {
		defer func() { recover() }()
		st := s.Committed()
		for hexAddr := range st.RawDump().Accounts {
			a := common.HexToAddress(hexAddr)
			if _, ok := s.Universe[a]; !ok {
				out = append(out, a)
			}
		}
	}()
	return out
}

// Close releases the node.
func (s *Sim) Close() { s.W.Close() }

// SenderOf returns the account sender and nonce of an account-based transaction (ok == false for pure confidential spends).
func SenderOf(tx types.Tx) (common.Address, uint64, bool) {
	switch v := tx.(type) {
	case *types.Transaction:
		f, _ := v.From()
		return f, v.Nonce(), true
	case *types.TokenTransaction:
		f, _ := v.From()
		return f, v.Nonce(), true
	case *types.MultiSignAccountTx:
		return types.MultiSignNonceAddr, v.Nonce(), true
	case *types.ContractUpgradeTx:
		f, _ := v.From()
		return f, v.Nonce(), true
	case *types.UTXOTransaction:
		// (tx.Nonce() is a cache that only CheckBasic fills; read the input itself)
		for _, in := range v.Inputs {
			if ai, ok := in.(*types.AccountInput); ok {
				f, _ := v.From()
				return f, ai.Nonce, true
			}
		}
	}
	return common.EmptyAddress, 0, false
}

// Fresh returns a transaction as a peer receives it: decoded from its wire encoding, all caches cold.
func Fresh(tx types.Tx) types.Tx {
	b, err := ser.EncodeToBytesWithType(tx)
	if err != nil {
		panic(err)
	}
	var n types.Tx
	if err := ser.DecodeBytesWithType(b, &n); err != nil {
		panic(err)
	}
	return n
}

// Restart throws the node away and opens a new one over the same databases (a clean restart).
func (s *Sim) Restart() error {
	s.W.Mempool.Stop()
	w, err := world.Open(s.Spec, s.W.DBs)
	if err != nil {
		return err
	}
	s.W = w
	return nil
}

// InjectAccepted builds a block with exactly txs (no mempool), fills its header by executing it on the proposer
// path, and reports whether the validator path of the same node accepts a re-decoded copy.
func (s *Sim) InjectAccepted(txs types.Txs) (accepted bool, note string) {
	blk := s.W.BlockOf(txs, world.GenesisTime+uint64(10*(s.W.Height()+1)), cfg.ContractFoundationAddr)
	var pan interface{}
	func() {
		defer func() { pan = recover() }()
		s.W.App.PreRunBlock(blk)
	}()
	if pan != nil {
		return false, fmt.Sprintf("does not execute even on the proposer path: %v", pan)
	}
	cp, err := world.CopyBlock(blk)
	if err != nil {
		return false, "block does not decode: " + err.Error()
	}
	return s.W.Check(cp), "validator path (CheckBlock)"
}

// GenUpgrade draws an upgrade of the WASM contract signed by the registered signer: to code with the same decimals
// answer (accepted) or with another one (rejected with ErrForbiddenDecimalsChanged).
func (s *Sim) GenUpgrade(t *rapid.T) *Tx {
	if s.WasmCodes == nil {
		return nil
	}
	name := rapid.SampledFrom([]string{"prints", "prints", "log", "getbalance"}).Draw(t, "upgradeto")
	nonce := s.W.App.GetNonce(s.Upgrader.Addr)
	return &Tx{Tx: world.UpgradeTx(s.Upgrader, s.WasmAddr, nonce, s.WasmCodes[name]), Kind: "wasm-upgrade", From: s.Upgrader.Addr, Desc: fmt.Sprintf("wasm-upgrade to %s.wasm nonce %d", name, nonce)}
}

// signerCandidates are the accounts a rotation can make upgrade signers.
func (s *Sim) signerCandidates() []world.Acct {
	return append([]world.Acct{s.Upgrader, world.DetAcct(901), world.DetAcct(902)}, s.Accts...)
}

// GenMultiSign draws a MultiSignAccountTx that rotates the upgrade signer set (1-2 signers of power 1, minimum power 1), signed
// by all validators or - rarely - by too few of them.
func (s *Sim) GenMultiSign(t *rapid.T) *Tx {
	if len(s.ValKeys) == 0 {
		return nil
	}
	cands := s.signerCandidates()
	n := rapid.IntRange(1, 2).Draw(t, "nsigners")
	first := rapid.IntRange(0, len(cands)-1).Draw(t, "firstsigner")
	var set []world.Acct
	var powers []int32
	for i := 0; i < n; i++ {
		set = append(set, cands[(first+i)%len(cands)])
		powers = append(powers, 1)
	}
	keys := s.ValKeys
	if rapid.IntRange(0, 5).Draw(t, "toofewvals") == 0 {
		keys = keys[:len(keys)/2]
	}
	nonce := s.W.App.GetNonce(types.MultiSignNonceAddr)
	tx := world.MultiSignTx(nonce, 1, set, powers, keys)
	var names []string
	for _, a := range set {
		names = append(names, a.Addr.Hex()[:8])
	}
	return &Tx{Tx: tx, Kind: "multisign", From: types.MultiSignNonceAddr, Desc: fmt.Sprintf("multisign nonce %d: upgrade signers become %v (%d validator signatures)", nonce, names, len(keys))}
}

// GenUpgradeBy draws an upgrade of the WASM contract signed by a member of the COMMITTED signer set, or - stale - by the
// signer the genesis registered.
func (s *Sim) GenUpgradeBy(t *rapid.T) *Tx {
	if s.WasmCodes == nil || len(s.SignerSet) == 0 {
		return s.GenUpgrade(t)
	}
	signer := s.SignerSet[rapid.IntRange(0, len(s.SignerSet)-1).Draw(t, "upgsigner")]
	if rapid.IntRange(0, 4).Draw(t, "genesisigner") == 0 {
		signer = s.Upgrader
	}
	s.Universe[signer.Addr] = struct{}{}
	name := rapid.SampledFrom([]string{"prints", "prints", "log", "getbalance"}).Draw(t, "upgradeto")
	nonce := s.W.App.GetNonce(signer.Addr)
	return &Tx{Tx: world.UpgradeTx(signer, s.WasmAddr, nonce, s.WasmCodes[name]), Kind: "wasm-upgrade", From: signer.Addr, Desc: fmt.Sprintf("wasm-upgrade to %s.wasm by %s nonce %d", name, signer.Addr.Hex()[:8], nonce)}
}

// tokenCap bounds one confidential token amount (commitments carry 64-bit amounts).
var tokenCap = new(big.Int).SetUint64(1 << 60)

// GenTokenDeposit draws an account->confidential transaction of a non-native token: the token amount is debited from the
// account's token balance, the fee - in the native coin - from its balance.
func (s *Sim) GenTokenDeposit(t *rapid.T) *Tx {
	if len(s.Tokens) == 0 {
		return nil
	}
	tok := rapid.SampledFrom(s.Tokens).Draw(t, "dtoken")
	from := s.Accts[rapid.IntRange(0, len(s.Accts)-1).Draw(t, "dfrom")]
	pend := s.W.App.GetPendingStateDB()
	have := pend.GetTokenBalance(from.Addr, tok)
	if have.Cmp(tokenCap) > 0 {
		have = tokenCap
	}
	nd := rapid.IntRange(1, 2).Draw(t, "dndest")
	var dests []types.DestEntry
	total := new(big.Int)
	for i := 0; i < nd; i++ {
		w := s.Wallets[rapid.IntRange(0, len(s.Wallets)-1).Draw(t, "dwallet")]
		amt := s.amountUpTo(t, new(big.Int).Div(have, big.NewInt(int64(nd))), "damt")
		if amt.Sign() == 0 {
			amt = big.NewInt(int64(rapid.IntRange(1, 1000).Draw(t, "dunits")))
		}
		dests = append(dests, w.Dest(uint64(rapid.IntRange(0, 2).Draw(t, "dsub")), amt))
		total.Add(total, amt)
	}
	fee := new(big.Int).Mul(new(big.Int).SetUint64(types.CalNewAmountGas(big.NewInt(0), types.EverLiankeFee)), world.GasPrice)
	nonce := s.W.App.GetNonce(from.Addr)
	tx, err := world.AccountToUTXO(from, nonce, total, dests, tok, fee)
	if err != nil {
		return nil
	}
	return &Tx{Tx: tx, Kind: "token-a2u", From: from.Addr, Desc: fmt.Sprintf("token-a2u %s token %s %v -> %d outs fee %v nonce %d", from.Addr.Hex()[:8], tok.Hex()[:8], total, nd, fee, nonce)}
}

// GenTokenSpend draws a confidential spend of a non-native token (to a confidential destination, to an account, or both); a
// generated account signs it and pays the fee in the native coin.
func (s *Sim) GenTokenSpend(t *rapid.T) *Tx {
	type cand struct {
		w   *world.Wallet
		tok common.Address
	}
	var cands []cand
	for _, w := range s.Wallets {
		for _, tok := range s.Tokens {
			if len(unspent(w, tok)) > 0 {
				cands = append(cands, cand{w, tok})
			}
		}
	}
	if len(cands) == 0 {
		return nil
	}
	c := cands[rapid.IntRange(0, len(cands)-1).Draw(t, "tspender")]
	un := unspent(c.w, c.tok)
	ow := un[rapid.IntRange(0, len(un)-1).Draw(t, "tin")]
	ringSize := rapid.IntRange(1, 3).Draw(t, "tring")
	src := ow.Source(s.ring(t, c.tok, ow.GlobalIndex, ringSize))
	total := new(big.Int).Set(ow.Amount)
	payer := s.Accts[rapid.IntRange(0, len(s.Accts)-1).Draw(t, "tpayer")]
	shape := rapid.SampledFrom([]string{"token-u2a", "token-u2u", "token-u2mix"}).Draw(t, "tshape")
	var dests []types.DestEntry
	to := rapid.SampledFrom(s.Recipients()).Draw(t, "tto")
	dw := s.Wallets[rapid.IntRange(0, len(s.Wallets)-1).Draw(t, "tdw")]
	fee := new(big.Int).Set(UTXOFee)
	switch shape {
	case "token-u2a":
		dests = append(dests, &types.AccountDestEntry{To: to, Amount: total})
		fee = new(big.Int).Mul(new(big.Int).SetUint64(types.CalNewAmountGas(big.NewInt(0), types.EverLiankeFee)), world.GasPrice)
	case "token-u2u":
		dests = append(dests, dw.Dest(uint64(rapid.IntRange(0, 2).Draw(t, "tsub")), total))
	default:
		a := new(big.Int).Div(total, big.NewInt(3))
		if a.Sign() == 0 {
			return nil
		}
		dests = append(dests, dw.Dest(0, new(big.Int).Sub(total, a)), &types.AccountDestEntry{To: to, Amount: a})
		fee = new(big.Int).Add(fee, new(big.Int).Mul(new(big.Int).SetUint64(types.CalNewAmountGas(big.NewInt(0), types.EverLiankeFee)), world.GasPrice))
	}
	tx, err := c.w.SpendUTXOSigned([]*types.UTXOSourceEntry{src}, dests, c.tok, fee, payer)
	if err != nil {
		return nil
	}
	return &Tx{Tx: tx, Kind: shape, From: payer.Addr, KeyImages: []lktypes.Key{ow.KeyImage}, Desc: fmt.Sprintf("%s token %s %v (ring %d), fee %v paid by %s", shape, c.tok.Hex()[:8], total, len(src.Ring), fee, payer.Addr.Hex()[:8])}
}
