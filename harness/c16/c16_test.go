// C16 — no message from a single peer can halt a node's consensus.
package c16

import (
	"fmt"
	"io"
	"math"
	"net"
	"os"
	"path/filepath"
	"regexp"
	"runtime"
	"strings"
	"sync"
	"sync/atomic"
	"testing"
	"time"

	"github.com/lianxiangcloud/linkchain/consensus"
	cstypes "github.com/lianxiangcloud/linkchain/consensus/types"
	auto "github.com/lianxiangcloud/linkchain/libs/autofile"
	"github.com/lianxiangcloud/linkchain/libs/common"
	cmn "github.com/lianxiangcloud/linkchain/libs/common"
	"github.com/lianxiangcloud/linkchain/libs/crypto"
	"github.com/lianxiangcloud/linkchain/libs/crypto/merkle"
	"github.com/lianxiangcloud/linkchain/libs/log"
	"github.com/lianxiangcloud/linkchain/libs/p2p"
	"github.com/lianxiangcloud/linkchain/libs/ser"
	"github.com/lianxiangcloud/linkchain/types"
	"pgregory.net/rapid"

	"verifharness/consim"
	"verifharness/vstat"
)

const P = "C16"

func TestMain(m *testing.M) {
	consim.Init()
	vstat.Main(m)
}

// ---------------------------------------------------------------- fakes

type fakePeer struct {
	cmn.BaseService
	id     string
	mu     sync.Mutex
	data   map[string]interface{}
	sent   int
	budget int // > 0: IsRunning() answers true that many more times, then false (bounds a gossip routine)
}

func (p *fakePeer) IsRunning() bool {
	p.mu.Lock()
	defer p.mu.Unlock()
	if p.budget > 0 {
		p.budget--
		return p.budget > 0
	}
	return p.BaseService.IsRunning()
}

func newFakePeer(id string) *fakePeer {
	p := &fakePeer{id: id, data: map[string]interface{}{}}
	p.BaseService = *cmn.NewBaseService(nil, "fakePeer", p)
	p.Start()
	return p
}
func (p *fakePeer) ID() string                   { return p.id }
func (p *fakePeer) RemoteAddr() net.Addr         { return &net.TCPAddr{IP: net.IPv4(10, 0, 0, 1), Port: 1} }
func (p *fakePeer) NodeInfo() p2p.NodeInfo       { return p2p.NodeInfo{} }
func (p *fakePeer) IsOutbound() bool             { return false }
func (p *fakePeer) Status() p2p.ConnectionStatus { return p2p.ConnectionStatus{} }
func (p *fakePeer) Send(byte, []byte) bool       { p.sent++; return true }
func (p *fakePeer) TrySend(byte, []byte) bool    { p.sent++; return true }
func (p *fakePeer) Close() error                 { return nil }
func (p *fakePeer) Set(k string, v interface{})  { p.mu.Lock(); p.data[k] = v; p.mu.Unlock() }
func (p *fakePeer) Get(k string) interface{}     { p.mu.Lock(); defer p.mu.Unlock(); return p.data[k] }

type fakeSwitch struct {
	cmn.BaseService
	stopped int
}

func newFakeSwitch() *fakeSwitch {
	s := &fakeSwitch{}
	s.BaseService = *cmn.NewBaseService(nil, "fakeSwitch", s)
	return s
}
func (s *fakeSwitch) GetByID(string) p2p.Peer                        { return nil }
func (s *fakeSwitch) StopPeerForError(p2p.Peer, interface{})         { s.stopped++ }
func (s *fakeSwitch) Reactor(string) p2p.Reactor                     { return nil }
func (s *fakeSwitch) AddReactor(n string, r p2p.Reactor) p2p.Reactor { return r }
func (s *fakeSwitch) Broadcast(byte, []byte) chan bool               { c := make(chan bool); close(c); return c }
func (s *fakeSwitch) BroadcastE(byte, string, []byte) chan bool {
	c := make(chan bool)
	close(c)
	return c
}
func (s *fakeSwitch) Peers() p2p.IPeerSet         { return nil }
func (s *fakeSwitch) LocalNodeInfo() p2p.NodeInfo { return p2p.NodeInfo{} }
func (s *fakeSwitch) NumPeers() (int, int, int)   { return 0, 0, 0 }
func (s *fakeSwitch) MarkBadNode(p2p.NodeInfo)    {}
func (s *fakeSwitch) CloseAllConnection()         {}

// ---------------------------------------------------------------- digest of the consensus-relevant state

func digest(cs *consensus.ConsensusState) string {
	rs := cs.GetRoundState()
	var b strings.Builder
	fmt.Fprintf(&b, "H%d R%d S%d commitRound=%d locked=%d/%s valid=%d/%s", rs.Height, rs.Round, rs.Step, rs.CommitRound, rs.LockedRound, bh(rs.LockedBlock), rs.ValidRound, bh(rs.ValidBlock))
	if rs.Proposal != nil {
		fmt.Fprintf(&b, " proposal=%d/%d/%x/%d", rs.Proposal.Height, rs.Proposal.Round, rs.Proposal.BlockPartsHeader.Hash, rs.Proposal.POLRound)
	}
	fmt.Fprintf(&b, " block=%s", bh(rs.ProposalBlock))
	if rs.ProposalBlockParts != nil {
		fmt.Fprintf(&b, " parts=%s/%d", rs.ProposalBlockParts.BitArray().String(), rs.ProposalBlockParts.Total())
	}
	if rs.Votes != nil {
		for r := 0; r <= rs.Round+1; r++ {
			// an empty vote set for a (future) round is bookkeeping the node creates when a peer mentions that round; only
			// tallies count
			if pv := rs.Votes.Prevotes(r); pv != nil && !pv.BitArray().IsEmpty() {
				id, ok := pv.TwoThirdsMajority()
				fmt.Fprintf(&b, " pv%d=%s maj=%v/%x", r, pv.BitArray().String(), ok, id.Hash[:3])
			}
			if pc := rs.Votes.Precommits(r); pc != nil && !pc.BitArray().IsEmpty() {
				id, ok := pc.TwoThirdsMajority()
				fmt.Fprintf(&b, " pc%d=%s maj=%v/%x", r, pc.BitArray().String(), ok, id.Hash[:3])
			}
		}
	}
	if rs.LastCommit != nil {
		fmt.Fprintf(&b, " lastcommit=%s", rs.LastCommit.BitArray().String())
	}
	return b.String()
}

func bh(b *types.Block) string {
	if b == nil {
		return "-"
	}
	return b.Hash().Hex()[2:10]
}

// ---------------------------------------------------------------- hostile message generation

type hostile struct {
	ch      byte
	bytes   []byte
	more    []wire // follow-up messages
	vote    *types.Vote
	desc    string
	legit   bool // well-formed AND correctly signed by a current validator / a valid part: may change the state
	variant bool
}

type wire struct {
	ch    byte
	bytes []byte
}

// maxWire is consensus.maxMsgSize: what the connection layer hands to the reactor at most.
const maxWire = 1048576

var walCtr int64

var ints = []int{-1, 0, 1, 2, 3, 7, 100, 1 << 20, 1 << 27, math.MaxInt32, math.MinInt32}

func genInt(t *rapid.T, around int, label string) int {
	switch rapid.IntRange(0, 4).Draw(t, label+"_k") {
	case 0:
		return around + rapid.IntRange(-2, 2).Draw(t, label+"_d")
	case 1:
		return rapid.SampledFrom(ints).Draw(t, label+"_c")
	case 2:
		return math.MaxInt64
	case 3:
		return math.MinInt64
	default:
		return around
	}
}

func genHeight(t *rapid.T, cur uint64, label string) uint64 {
	switch rapid.IntRange(0, 5).Draw(t, label+"_k") {
	case 0:
		return 0
	case 1:
		if cur > 0 {
			return cur - 1
		}
		return 0
	case 2:
		return cur + 1
	case 3:
		return math.MaxUint64
	case 4:
		return cur + uint64(rapid.IntRange(2, 1000).Draw(t, label+"_d"))
	default:
		return cur
	}
}

func genBitArray(t *rapid.T, label string) *cmn.BitArray {
	switch rapid.IntRange(0, 4).Draw(t, label+"_k") {
	case 0:
		return nil
	case 1:
		return cmn.NewBitArray(rapid.IntRange(1, 9).Draw(t, label+"_n"))
	case 2:
		return &cmn.BitArray{Bits: rapid.SampledFrom(ints).Draw(t, label+"_bits"), Elems: make([]uint64, rapid.IntRange(0, 3).Draw(t, label+"_el"))}
	case 3:
		b := cmn.NewBitArray(4)
		b.SetIndex(rapid.IntRange(0, 3).Draw(t, label+"_i"), true)
		return b
	default:
		return &cmn.BitArray{Bits: 1 << 20, Elems: nil}
	}
}

func genBlockID(t *rapid.T, n *consim.Net, nd *consim.Node, label string) types.BlockID {
	rs := nd.CS.GetRoundState()
	switch rapid.IntRange(0, 3).Draw(t, label+"_k") {
	case 0:
		return types.BlockID{}
	case 1:
		if rs.ProposalBlock != nil && rs.ProposalBlockParts != nil {
			return types.BlockID{Hash: rs.ProposalBlock.Hash(), PartsHeader: rs.ProposalBlockParts.Header()}
		}
		return types.BlockID{}
	case 2:
		return types.BlockID{Hash: common.BytesToHash([]byte("x")), PartsHeader: types.PartSetHeader{Total: rapid.SampledFrom(ints).Draw(t, label+"_tot"), Hash: []byte("h")}}
	default:
		return types.BlockID{Hash: common.BytesToHash([]byte("y")), PartsHeader: types.PartSetHeader{Total: 1, Hash: nil}}
	}
}

func enc(m consensus.ConsensusMessage) []byte {
	b, err := ser.EncodeToBytesWithType(m)
	if err != nil {
		return nil
	}
	return b
}

// genHostile draws one message a single peer sends.  signer >= 0 means the peer holds that validator's key.
func genHostile(t *rapid.T, n *consim.Net, nd *consim.Node, signer int, pstate *consensus.PeerState, prefer string) *hostile {
	rs := nd.CS.GetRoundState()
	kinds := []string{"bytes", "newroundstep", "commitstep", "proposal", "proposalpol", "blockpart", "blockpart", "vote", "vote", "vote", "hasvote", "maj23", "votesetbits", "heartbeat", "mutated-valid", "forged-vote", "forged-vote", "forged-proposal", "forged-part", "nrs-aligned", "nrs-aligned", "commitstep-aligned", "pol-setup", "near-limit-part"}
	if signer >= 0 && string(rs.Validators.GetProposer().Address) == string(n.Vals[signer].Addr) && rs.Proposal == nil {
		kinds = append(kinds, "p-header", "p-header", "p-header", "p-block", "p-block", "p-block", "p-block", "p-variant", "p-variant", "p-variant")
	}
	if signer >= 0 {
		kinds = append(kinds, "conflict-replay", "conflict-replay", "conflict-replay")
	}
	kinds = append(kinds, "catchup-rounds", "catchup-rounds")
	kind := rapid.SampledFrom(kinds).Draw(t, "mkind")
	if prefer != "" && rapid.Bool().Draw(t, "preferred") {
		kind = prefer
	}
	h := &hostile{desc: kind}
	sign := func(b []byte) crypto.Signature {
		if signer < 0 {
			if rapid.Bool().Draw(t, "nosig") {
				return nil
			}
			s, _ := consim.DetVal(99, 1).Priv.Sign(b)
			return s
		}
		s, _ := n.Vals[signer].Priv.Sign(b)
		return s
	}
	switch kind {
	case "bytes":
		h.ch = rapid.SampledFrom([]byte{consensus.StateChannel, consensus.DataChannel, consensus.VoteChannel, consensus.VoteSetBitsChannel, 0x77}).Draw(t, "ch")
		h.bytes = rapid.SliceOfN(rapid.Byte(), 0, 64).Draw(t, "raw")
	case "newroundstep":
		h.ch = consensus.StateChannel
		h.bytes = enc(&consensus.NewRoundStepMessage{Height: genHeight(t, rs.Height, "h"), Round: genInt(t, rs.Round, "r"), Step: cstypes.RoundStepType(rapid.IntRange(0, 12).Draw(t, "step")), SecondsSinceStartTime: genInt(t, 0, "s"), LastCommitRound: genInt(t, 0, "lcr")})
	case "nrs-aligned":
		// a plausible step announcement: afterwards the node believes the peer is at (or just below) its own height, and the
		// peer's later claims about parts and votes are applied to that height's bookkeeping, which the gossip routines read
		h.ch = consensus.StateChannel
		ph := rs.Height
		if ph > 1 && rapid.IntRange(0, 2).Draw(t, "na_below") == 0 {
			ph -= uint64(rapid.IntRange(1, int(min(int(ph)-1, 3))).Draw(t, "na_d"))
		}
		h.bytes = enc(&consensus.NewRoundStepMessage{Height: ph, Round: rapid.SampledFrom([]int{rs.Round, rs.Round, 0, rs.Round + 1, -1, math.MaxInt64}).Draw(t, "na_r"), Step: cstypes.RoundStepType(rapid.IntRange(1, 8).Draw(t, "na_step")), SecondsSinceStartTime: 1, LastCommitRound: rapid.SampledFrom([]int{0, 0, -1, 1, math.MaxInt32}).Draw(t, "na_lcr")})
		h.desc = fmt.Sprintf("nrs-aligned h=%d(own %d)", ph, rs.Height)
	case "pol-setup":
		// The peer announces itself in round R of the node's height, shows a proposal of that round that names an earlier
		// proof-of-lock round p, and then claims which prevotes of round p it has: the node keeps that bit array and its vote
		// gossip subtracts it from its own prevotes of round p.
		h.ch = consensus.StateChannel
		p := rapid.IntRange(0, rs.Round+1).Draw(t, "ps_p")
		R := p + rapid.IntRange(1, 3).Draw(t, "ps_dr")
		h.bytes = enc(&consensus.NewRoundStepMessage{Height: rs.Height, Round: R, Step: cstypes.RoundStepType(rapid.IntRange(1, 8).Draw(t, "ps_step")), SecondsSinceStartTime: 1, LastCommitRound: 0})
		prop := types.NewProposal(rs.Height, R, types.PartSetHeader{Total: 1, Hash: crypto.Keccak256([]byte("pol"))}, p, types.BlockID{Hash: common.BytesToHash([]byte("pol")), PartsHeader: types.PartSetHeader{Total: 1, Hash: []byte("p")}})
		prop.Type = types.ProposalTypeNormal
		prop.Signature = sign(prop.SignBytes(consim.ChainID))
		h.more = append(h.more, wire{consensus.DataChannel, enc(&consensus.ProposalMessage{Proposal: prop})})
		h.more = append(h.more, wire{consensus.DataChannel, enc(&consensus.ProposalPOLMessage{Height: rs.Height, ProposalPOLRound: p, ProposalPOL: genBitArray(t, "ba")})})
		h.legit = signer >= 0 // the proposal may be a future-round proposal by a validator; whether it counts is not judged here
		h.desc = fmt.Sprintf("pol-setup R=%d p=%d", R, p)
	case "commitstep-aligned":
		// the header of the block the node holds (public), with a bit array of the peer's choosing
		h.ch = consensus.StateChannel
		hdr := types.PartSetHeader{Total: 1, Hash: []byte("h")}
		if rs.ProposalBlockParts != nil {
			hdr = rs.ProposalBlockParts.Header()
		}
		ph := rs.Height
		if rapid.Bool().Draw(t, "ca_peerheight") {
			ph = pstate.GetHeight() // what the node currently believes the peer's height to be
		}
		h.bytes = enc(&consensus.CommitStepMessage{Height: ph, BlockPartsHeader: hdr, BlockParts: genBitArray(t, "ba")})
		h.desc = fmt.Sprintf("commitstep-aligned h=%d total=%d", ph, hdr.Total)
	case "commitstep":
		h.ch = consensus.StateChannel
		h.bytes = enc(&consensus.CommitStepMessage{Height: genHeight(t, rs.Height, "h"), BlockPartsHeader: genBlockID(t, n, nd, "bid").PartsHeader, BlockParts: genBitArray(t, "ba")})
	case "proposalpol":
		h.ch = consensus.DataChannel
		h.bytes = enc(&consensus.ProposalPOLMessage{Height: genHeight(t, rs.Height, "h"), ProposalPOLRound: genInt(t, rs.Round, "r"), ProposalPOL: genBitArray(t, "ba")})
	case "hasvote":
		h.ch = consensus.StateChannel
		h.bytes = enc(&consensus.HasVoteMessage{Height: genHeight(t, rs.Height, "h"), Round: genInt(t, rs.Round, "r"), Type: byte(rapid.SampledFrom([]int{0, 1, 2, 3, 255}).Draw(t, "ty")), Index: genInt(t, 0, "i")})
	case "maj23":
		h.ch = consensus.StateChannel
		h.bytes = enc(&consensus.VoteSetMaj23Message{Height: genHeight(t, rs.Height, "h"), Round: genInt(t, rs.Round, "r"), Type: byte(rapid.SampledFrom([]int{0, 1, 2, 3, 255}).Draw(t, "ty")), BlockID: genBlockID(t, n, nd, "bid")})
	case "votesetbits":
		h.ch = consensus.VoteSetBitsChannel
		h.bytes = enc(&consensus.VoteSetBitsMessage{Height: genHeight(t, rs.Height, "h"), Round: genInt(t, rs.Round, "r"), Type: byte(rapid.SampledFrom([]int{0, 1, 2, 3, 255}).Draw(t, "ty")), BlockID: genBlockID(t, n, nd, "bid"), Votes: genBitArray(t, "ba")})
	case "heartbeat":
		h.ch = consensus.StateChannel
		var hb *types.Heartbeat
		if rapid.Bool().Draw(t, "hbnil") {
			hb = &types.Heartbeat{Height: genHeight(t, rs.Height, "h"), Round: genInt(t, rs.Round, "r"), Sequence: genInt(t, 0, "s"), ValidatorIndex: genInt(t, 0, "i")}
		}
		h.bytes = enc(&consensus.ProposalHeartbeatMessage{Heartbeat: hb})
	case "vote":
		h.ch = consensus.VoteChannel
		if rapid.IntRange(0, 9).Draw(t, "nilvote") == 0 {
			h.bytes = enc(&consensus.VoteMessage{Vote: nil})
			break
		}
		vi := 0
		var addr crypto.Address = []byte("nobody")
		if signer >= 0 {
			vi, _ = n.ValSet.GetByAddress(n.Vals[signer].Addr)
			addr = n.Vals[signer].Addr
		}
		v := &types.Vote{
			ValidatorAddress: addr,
			ValidatorIndex:   vi,
			ValidatorSize:    n.ValSet.Size(),
			Height:           genHeight(t, rs.Height, "h"),
			Round:            genInt(t, rs.Round, "r"),
			Timestamp:        time.Unix(1569409200, 0).UTC(),
			Type:             byte(rapid.SampledFrom([]int{1, 2, 1, 2, 0, 3, 255}).Draw(t, "ty")),
			BlockID:          genBlockID(t, n, nd, "bid"),
		}
		wellFormed := true
		if rapid.IntRange(0, 2).Draw(t, "badidx") == 0 {
			v.ValidatorIndex = genInt(t, vi, "idx")
			wellFormed = wellFormed && v.ValidatorIndex == vi
		}
		if rapid.IntRange(0, 4).Draw(t, "badsize") == 0 {
			v.ValidatorSize = genInt(t, n.ValSet.Size(), "size")
			wellFormed = wellFormed && v.ValidatorSize == n.ValSet.Size()
		}
		if rapid.IntRange(0, 5).Draw(t, "nilts") == 0 {
			v.Timestamp = time.Time{}
		}
		v.Signature = sign(v.SignBytes(consim.ChainID))
		// a correctly signed vote by a current validator may legitimately change tallies
		h.legit = signer >= 0 && wellFormed && (v.Type == 1 || v.Type == 2)
		h.bytes = enc(&consensus.VoteMessage{Vote: v})
		h.vote = v
		h.desc = fmt.Sprintf("vote h=%d r=%d type=%d idx=%d size=%d signer=%d", v.Height, v.Round, v.Type, v.ValidatorIndex, v.ValidatorSize, signer)
	case "proposal":
		h.ch = consensus.DataChannel
		if rapid.IntRange(0, 9).Draw(t, "nilprop") == 0 {
			h.bytes = enc(&consensus.ProposalMessage{Proposal: nil})
			break
		}
		hdr := genBlockID(t, n, nd, "bid").PartsHeader
		p := types.NewProposal(genHeight(t, rs.Height, "h"), genInt(t, rs.Round, "r"), hdr, genInt(t, -1, "pol"), genBlockID(t, n, nd, "polid"))
		p.Type = byte(rapid.SampledFrom([]int{int(types.ProposalTypeNormal), int(types.ProposalTypeRecover), 7, 255}).Draw(t, "ptype"))
		p.Signature = sign(p.SignBytes(consim.ChainID))
		// a proposal signed by the round's proposer is "legit" in the sense of the state-unchanged rule, whatever its fields
		prop := rs.Validators.GetProposer()
		h.legit = signer >= 0 && string(prop.Address) == string(n.Vals[signer].Addr)
		h.bytes = enc(&consensus.ProposalMessage{Proposal: p})
		h.desc = fmt.Sprintf("proposal h=%d r=%d total=%d pol=%d type=%d signer=%d proposer=%v", p.Height, p.Round, hdr.Total, p.POLRound, p.Type, signer, h.legit)
	case "blockpart":
		h.ch = consensus.DataChannel
		if rapid.IntRange(0, 9).Draw(t, "nilpart") == 0 {
			h.bytes = enc(&consensus.BlockPartMessage{Height: genHeight(t, rs.Height, "h"), Round: genInt(t, rs.Round, "r"), Part: nil})
			break
		}
		part := &types.Part{Index: genInt(t, 0, "idx"), Bytes: rapid.SliceOfN(rapid.Byte(), 0, 40).Draw(t, "pb"), Proof: merkle.SimpleProof{Aunts: nil}}
		if rapid.Bool().Draw(t, "aunts") {
			part.Proof.Aunts = [][]byte{rapid.SliceOfN(rapid.Byte(), 0, 33).Draw(t, "aunt")}
		}
		h.bytes = enc(&consensus.BlockPartMessage{Height: genHeight(t, rs.Height, "h"), Round: genInt(t, rs.Round, "r"), Part: part})
		h.desc = fmt.Sprintf("blockpart idx=%d", part.Index)
	case "p-variant":
		// The proposer gives everybody else a valid block and the victim an EQUAL-HASH VARIANT of it: bytes that differ only
		// in a field the block hash does not cover (Commit.Hash covers the precommits, not LastCommit.BlockID), so the part-set
		// header differs while Block.Hash() is the same.  The others vote for the original; the victim holds the variant
		// when it sees their +2/3 precommits.
		h.ch = consensus.DataChannel
		msgs, blk := n.ByzProposal(signer, nd, rs.Height, rs.Round, -1, types.BlockID{}, 7, nil)
		if blk == nil || len(msgs) == 0 {
			return nil
		}
		var variant *types.Block
		if bz, err := ser.EncodeToBytes(blk); err != nil || ser.DecodeBytes(bz, &variant) != nil || variant == nil || variant.LastCommit == nil {
			return nil
		}
		variant.LastCommit.BlockID = types.BlockID{Hash: common.BytesToHash([]byte("variant")), PartsHeader: types.PartSetHeader{Total: 1, Hash: []byte("v")}}
		vbz, err := ser.EncodeToBytes(variant)
		if err != nil {
			return nil
		}
		var chk *types.Block
		if ser.DecodeBytes(vbz, &chk) != nil || chk.Hash() != blk.Hash() {
			return nil // not an equal-hash variant (the hash covers the field after all)
		}
		ps := types.NewPartSetFromData(vbz, consim.PartSize)
		if ps.HasHeader(msgs[0].(*consensus.ProposalMessage).Proposal.BlockPartsHeader) {
			return nil
		}
		p := types.NewProposal(rs.Height, rs.Round, ps.Header(), -1, types.BlockID{})
		p.Type = types.ProposalTypeNormal
		p.Signature = sign(p.SignBytes(consim.ChainID))
		h.legit = true
		h.bytes = enc(&consensus.ProposalMessage{Proposal: p})
		for i := 0; i < ps.Total(); i++ {
			h.more = append(h.more, wire{consensus.DataChannel, enc(&consensus.BlockPartMessage{Height: rs.Height, Round: rs.Round, Part: ps.GetPart(i)})})
		}
		// everybody else gets the original from the same proposer, and its votes for it
		for _, m := range msgs {
			n.Inject(signer, m)
		}
		id := types.BlockID{Hash: blk.Hash(), PartsHeader: msgs[0].(*consensus.ProposalMessage).Proposal.BlockPartsHeader}
		n.Inject(signer, &consensus.VoteMessage{Vote: n.SignedVote(signer, types.VoteTypePrevote, rs.Height, rs.Round, id)})
		n.Inject(signer, &consensus.VoteMessage{Vote: n.SignedVote(signer, types.VoteTypePrecommit, rs.Height, rs.Round, id)})
		h.variant = true
		h.desc = fmt.Sprintf("p-variant h=%d r=%d (same block hash, other part-set header)", rs.Height, rs.Round)
	case "p-header":
		// the round's proposer signs a proposal for the current height/round whose part-set header is absurd
		h.ch = consensus.DataChannel
		hdr := types.PartSetHeader{Total: rapid.SampledFrom([]int{-1, 0, math.MinInt64, math.MinInt32, 1 << 27, 1 << 22, 1 << 16, 5}).Draw(t, "tot"), Hash: rapid.SliceOfN(rapid.Byte(), 0, 33).Draw(t, "hh")}
		p := types.NewProposal(rs.Height, rs.Round, hdr, -1, types.BlockID{})
		p.Type = types.ProposalTypeNormal
		p.Signature = sign(p.SignBytes(consim.ChainID))
		h.legit = true
		h.bytes = enc(&consensus.ProposalMessage{Proposal: p})
		h.desc = fmt.Sprintf("p-header total=%d", hdr.Total)
	case "p-block":
		// the round's proposer signs a proposal for bytes of its choosing and supplies all parts with valid proofs
		h.ch = consensus.DataChannel
		var data []byte
		variant := rapid.SampledFrom([]string{"nil-header", "nil-data", "nil-lastcommit", "all-nil", "garbage", "empty", "nil-evidence-keys", "huge-height"}).Draw(t, "variant")
		mk := func() *types.Block {
			return &types.Block{Header: &types.Header{ChainID: consim.ChainID, Height: rs.Height}, Data: &types.Data{}, LastCommit: &types.Commit{}}
		}
		switch variant {
		case "nil-header":
			b := mk()
			b.Header = nil
			data, _ = ser.EncodeToBytes(b)
		case "nil-data":
			b := mk()
			b.Data = nil
			data, _ = ser.EncodeToBytes(b)
		case "nil-lastcommit":
			b := mk()
			b.LastCommit = nil
			data, _ = ser.EncodeToBytes(b)
		case "all-nil":
			data, _ = ser.EncodeToBytes(&types.Block{})
		case "garbage":
			data = rapid.SliceOfN(rapid.Byte(), 1, 300).Draw(t, "garb")
		case "empty":
			data = []byte{0xc0}
		case "nil-evidence-keys":
			b := mk()
			b.Evidence.Evidence = types.EvidenceList{&types.FaultValidatorsEvidence{BlockHeight: rs.Height - 1, Round: 1}, &types.DuplicateVoteEvidence{}}
			b.EvidenceHash = b.Evidence.Hash()
			data, _ = ser.EncodeToBytes(b)
		case "huge-height":
			b := mk()
			b.Header.Height = math.MaxUint64
			b.Header.Recover = math.MaxUint32
			data, _ = ser.EncodeToBytes(b)
		}
		if len(data) == 0 {
			return nil
		}
		ps := types.NewPartSetFromData(data, rapid.SampledFrom([]int{16, 64, 4096}).Draw(t, "psz"))
		p := types.NewProposal(rs.Height, rs.Round, ps.Header(), -1, types.BlockID{})
		p.Type = types.ProposalTypeNormal
		p.Signature = sign(p.SignBytes(consim.ChainID))
		h.legit = true
		h.bytes = enc(&consensus.ProposalMessage{Proposal: p})
		h.desc = "p-block " + variant
		for i := 0; i < ps.Total(); i++ {
			h.more = append(h.more, wire{consensus.DataChannel, enc(&consensus.BlockPartMessage{Height: rs.Height, Round: rs.Round, Part: ps.GetPart(i)})})
		}
	case "near-limit-part":
		// the largest messages the connection layer lets through (RecvMessageCapacity = 1 MiB): a block part of any height
		// with that much garbage.  No key is needed.  The node logs it before it looks at it.
		h.ch = consensus.DataChannel
		part := &types.Part{Index: genInt(t, 0, "idx"), Bytes: nil}
		msg := &consensus.BlockPartMessage{Height: genHeight(t, rs.Height, "h"), Round: genInt(t, rs.Round, "r"), Part: part}
		overhead := len(enc(msg))
		target := maxWire - rapid.SampledFrom([]int{0, 0, 1, 2, 8, 16, 32, 40, 47, 48, 64, 128, 1024}).Draw(t, "below")
		part.Bytes = make([]byte, target-overhead-8)
		// the length prefixes grow with the payload: adjust to hit the target exactly
		for i := 0; i < 4; i++ {
			if d := target - len(enc(msg)); d != 0 && len(part.Bytes)+d > 0 {
				part.Bytes = make([]byte, len(part.Bytes)+d)
			}
		}
		h.bytes = enc(msg)
		if len(h.bytes) > maxWire {
			return nil
		}
		h.legit = false
		h.desc = fmt.Sprintf("near-limit-part wire=%d", len(h.bytes))
	case "catchup-rounds":
		// votes for the two future rounds a peer may open on the node (HeightVoteSet keeps up to two "catch-up" rounds per
		// peer): rounds c+a and c+b of the node's height, signed or not - the node walks into those rounds later
		h.ch = consensus.VoteChannel
		a := rapid.IntRange(1, 3).Draw(t, "cu_a")
		b := a + rapid.IntRange(1, 2).Draw(t, "cu_b")
		mkv := func(r int) []byte {
			vi := 0
			var addr crypto.Address = []byte("nobody")
			if signer >= 0 {
				vi, _ = n.ValSet.GetByAddress(n.Vals[signer].Addr)
				addr = n.Vals[signer].Addr
			}
			v := &types.Vote{ValidatorAddress: addr, ValidatorIndex: vi, ValidatorSize: n.ValSet.Size(), Height: rs.Height, Round: r,
				Timestamp: time.Unix(1569409200, 0).UTC(), Type: byte(rapid.SampledFrom([]int{1, 2}).Draw(t, "cu_ty")), BlockID: genBlockID(t, n, nd, "cu_bid")}
			v.Signature = sign(v.SignBytes(consim.ChainID))
			return enc(&consensus.VoteMessage{Vote: v})
		}
		h.bytes = mkv(rs.Round + a)
		h.more = append(h.more, wire{consensus.VoteChannel, mkv(rs.Round + b)})
		h.legit = signer >= 0
		h.desc = fmt.Sprintf("catchup-rounds h=%d rounds %d and %d signer=%d", rs.Height, rs.Round+a, rs.Round+b, signer)
	case "conflict-replay":
		// An equivocating validator and ordinary gossip: its vote for a block X comes first, then the genuine votes of the other
		// validators for the block Y they really voted for (the peer relays what it has seen on the network; together with the
		// node's own vote that is +2/3), then its second, conflicting vote for Y - and the same message once more, as a second
		// neighbour would deliver it.
		h.ch = consensus.VoteChannel
		type slot struct {
			r  int
			ty byte
			id string
		}
		groups := map[slot][]*types.Vote{}
		var order []slot
		for _, e := range n.Pool {
			vm, ok := e.Msg.(*consensus.VoteMessage)
			if !ok || e.Byz || e.From == signer || vm.Vote == nil || vm.Vote.Height != rs.Height || len(vm.Vote.BlockID.Hash) == 0 || vm.Vote.BlockID.IsZero() {
				continue
			}
			k := slot{vm.Vote.Round, vm.Vote.Type, vm.Vote.BlockID.String()}
			if groups[k] == nil {
				order = append(order, k)
			}
			groups[k] = append(groups[k], vm.Vote)
		}
		if len(order) == 0 {
			return nil
		}
		k := order[rapid.IntRange(0, len(order)-1).Draw(t, "cr_slot")]
		idY := groups[k][0].BlockID
		vi, _ := n.ValSet.GetByAddress(n.Vals[signer].Addr)
		mk := func(id types.BlockID) *types.Vote {
			v := &types.Vote{ValidatorAddress: n.Vals[signer].Addr, ValidatorIndex: vi, ValidatorSize: n.ValSet.Size(), Height: rs.Height, Round: k.r,
				Timestamp: time.Unix(1569409200, 0).UTC(), Type: k.ty, BlockID: id}
			v.Signature = sign(v.SignBytes(consim.ChainID))
			return v
		}
		idX := types.BlockID{Hash: common.BytesToHash(crypto.Keccak256([]byte("another block"))), PartsHeader: types.PartSetHeader{Total: 1, Hash: crypto.Keccak256([]byte("x"))}}
		if rapid.IntRange(0, 3).Draw(t, "cr_nilfirst") == 0 {
			idX = types.BlockID{}
		}
		h.bytes = enc(&consensus.VoteMessage{Vote: mk(idX)})
		seen := map[int]bool{}
		for _, v := range groups[k] {
			if !seen[v.ValidatorIndex] {
				seen[v.ValidatorIndex] = true
				h.more = append(h.more, wire{consensus.VoteChannel, enc(&consensus.VoteMessage{Vote: v})})
			}
		}
		second := enc(&consensus.VoteMessage{Vote: mk(idY)})
		for i := rapid.IntRange(1, 3).Draw(t, "cr_repeats"); i >= 0; i-- {
			h.more = append(h.more, wire{consensus.VoteChannel, second})
		}
		h.legit = true
		h.vote = mk(idX)
		h.desc = fmt.Sprintf("conflict-replay h=%d r=%d type=%d: own vote for %s, %d relayed votes for %s, then own vote for it, repeated", rs.Height, k.r, k.ty, idX.String(), len(seen), idY.String())
	case "forged-vote":
		// every field is what a correct validator OTHER than the sender would put there; only the signature is not that
		// validator's (absent, made with the sender's key, or that validator's genuine signature over a different vote)
		h.ch = consensus.VoteChannel
		who := rapid.IntRange(1, len(n.Vals)-1).Draw(t, "fv_who")
		if who == signer {
			who = 1 + who%(len(n.Vals)-1)
			if who == signer {
				return nil
			}
		}
		vi, _ := n.ValSet.GetByAddress(n.Vals[who].Addr)
		v := &types.Vote{
			ValidatorAddress: n.Vals[who].Addr,
			ValidatorIndex:   vi,
			ValidatorSize:    n.ValSet.Size(),
			Height:           rs.Height,
			Round:            rs.Round + rapid.SampledFrom([]int{0, 0, 0, 1, 2}).Draw(t, "fv_dr"),
			Timestamp:        time.Unix(1569409200, 0).UTC(),
			Type:             byte(rapid.SampledFrom([]int{1, 2}).Draw(t, "fv_ty")),
		}
		if rs.ProposalBlock != nil && rs.ProposalBlockParts != nil && rapid.Bool().Draw(t, "fv_forblock") {
			v.BlockID = types.BlockID{Hash: rs.ProposalBlock.Hash(), PartsHeader: rs.ProposalBlockParts.Header()}
		}
		if rs.LastCommit != nil && rs.Height > 1 && rapid.IntRange(0, 3).Draw(t, "fv_last") == 0 {
			// a late precommit for the previous height
			v.Height, v.Round, v.Type = rs.Height-1, rs.LastCommit.Round(), types.VoteTypePrecommit
			if id, ok := rs.LastCommit.TwoThirdsMajority(); ok {
				v.BlockID = id
			}
		}
		switch rapid.SampledFrom([]string{"none", "other-key", "other-vote"}).Draw(t, "fv_sig") {
		case "none":
		case "other-key":
			v.Signature = sign(v.SignBytes(consim.ChainID))
		case "other-vote":
			w := *v
			w.Timestamp = w.Timestamp.Add(time.Hour)
			w.BlockID = types.BlockID{Hash: common.BytesToHash([]byte("elsewhere")), PartsHeader: types.PartSetHeader{Total: 1, Hash: []byte("e")}}
			v.Signature, _ = n.Vals[who].Priv.Sign(w.SignBytes(consim.ChainID))
		}
		h.legit = false
		h.bytes = enc(&consensus.VoteMessage{Vote: v})
		h.desc = fmt.Sprintf("forged-vote h=%d r=%d type=%d claims=%d signer=%d", v.Height, v.Round, v.Type, who, signer)
	case "forged-proposal":
		// a proposal for the victim's height and round with acceptable fields that the round's proposer did not sign
		h.ch = consensus.DataChannel
		prop := rs.Validators.GetProposer()
		if signer >= 0 && string(prop.Address) == string(n.Vals[signer].Addr) {
			return nil
		}
		hdr := types.PartSetHeader{Total: rapid.IntRange(1, 3).Draw(t, "fp_tot"), Hash: crypto.Keccak256([]byte("forged"))}
		p := types.NewProposal(rs.Height, rs.Round, hdr, -1, types.BlockID{})
		p.Type = types.ProposalTypeNormal
		if rapid.IntRange(0, 2).Draw(t, "fp_sig") != 0 {
			p.Signature = sign(p.SignBytes(consim.ChainID))
		}
		h.legit = false
		h.bytes = enc(&consensus.ProposalMessage{Proposal: p})
		h.desc = fmt.Sprintf("forged-proposal total=%d signed=%v signer=%d", hdr.Total, p.Signature != nil, signer)
	case "forged-part":
		// a part for the proposal the victim is collecting, at an index it still misses, with bytes that are not the proposer's
		h.ch = consensus.DataChannel
		if rs.ProposalBlockParts == nil || rs.ProposalBlockParts.IsComplete() {
			return nil
		}
		idx := -1
		for i := 0; i < rs.ProposalBlockParts.Total(); i++ {
			if rs.ProposalBlockParts.GetPart(i) == nil {
				idx = i
				break
			}
		}
		if idx < 0 {
			return nil
		}
		part := &types.Part{Index: idx, Bytes: rapid.SliceOfN(rapid.Byte(), 1, 40).Draw(t, "fpb")}
		if rapid.Bool().Draw(t, "fp_aunts") {
			part.Proof.Aunts = [][]byte{crypto.Keccak256([]byte("aunt"))}
		}
		h.legit = false
		h.bytes = enc(&consensus.BlockPartMessage{Height: rs.Height, Round: rs.Round, Part: part})
		h.desc = fmt.Sprintf("forged-part idx=%d of %d", idx, rs.ProposalBlockParts.Total())
	case "mutated-valid":
		// a valid message from the pool with some bytes changed
		if len(n.Pool) == 0 {
			return nil
		}
		m := n.Pool[rapid.IntRange(0, len(n.Pool)-1).Draw(t, "pm")].Msg
		b := enc(m)
		if len(b) == 0 {
			return nil
		}
		b = append([]byte(nil), b...)
		k := rapid.IntRange(1, 3).Draw(t, "nflips")
		for i := 0; i < k; i++ {
			b[rapid.IntRange(0, len(b)-1).Draw(t, "pos")] ^= byte(rapid.IntRange(1, 255).Draw(t, "xor"))
		}
		if rapid.IntRange(0, 3).Draw(t, "trunc") == 0 {
			b = b[:rapid.IntRange(0, len(b)).Draw(t, "cut")]
		}
		h.bytes = b
		switch m.(type) {
		case *consensus.VoteMessage:
			h.ch = consensus.VoteChannel
		default:
			h.ch = consensus.DataChannel
		}
		// a flipped byte may land in a field that is not covered by anything that matters (e.g. a timestamp of an unsigned
		// field); whether the result is still a valid signed message cannot be told here, so do not demand "unchanged"
		h.legit = true
	}
	if rapid.IntRange(0, 14).Draw(t, "wrongch") == 0 {
		h.ch = rapid.SampledFrom([]byte{consensus.StateChannel, consensus.DataChannel, consensus.VoteChannel, consensus.VoteSetBitsChannel}).Draw(t, "ch2")
	}
	if h.bytes == nil {
		return nil
	}
	return h
}

// ---------------------------------------------------------------- the case

var frameRe = regexp.MustCompile(`(?m)^github\.com/lianxiangcloud/linkchain/([^\s(]+(?:\([^)]*\))?[^\s(]*)\(`)

// rootCause names a recovered panic by the first linkchain frame below the runtime's panic machinery.
func rootCause(stack string) string {
	for _, m := range frameRe.FindAllStringSubmatch(stack, -1) {
		f := m[1]
		if strings.Contains(f, "Verif") || strings.Contains(f, "libs/common.Panic") {
			continue
		}
		f = strings.NewReplacer("(*", "", ")", "", "/", ".").Replace(f)
		return f
	}
	return "unknown-frame"
}

func within(d time.Duration, f func()) bool {
	done := make(chan struct{})
	go func() { defer close(done); f() }()
	select {
	case <-done:
		return true
	case <-time.After(d):
		return false
	}
}

func runCase(t *rapid.T) {
	vstat.Eval()
	nv := 4
	vals := make([]*consim.ValKey, nv)
	for i := range vals {
		vals[i] = consim.DetVal(i, 1)
	}
	n := consim.NewNet(vals, map[int]bool{}, rapid.Bool().Draw(t, "skiptimeoutcommit"))
	n.Config.PeerGossipSleepDuration = 0 // the gossip routines are run a few iterations at a time, in this goroutine
	n.Config.PeerQueryMaj23SleepDuration = 0
	defer n.Close()
	for i := 0; i < nv; i++ {
		if _, err := n.AddNode(i); err != nil {
			t.Fatalf("node: %v", err)
		}
	}
	victim := n.Nodes[0]
	victimStarted := rapid.IntRange(0, 5).Draw(t, "victimstarted") != 0
	for _, nd := range n.Nodes {
		if nd == victim && !victimStarted {
			continue // stays in NewHeight of height 1 (waiting for its start time), LastCommit is nil
		}
		n.Start(nd)
	}
	// the others run fairly among themselves; the victim receives a generated prefix of the traffic: that is its state
	fairStep := func(includeVictim bool) bool {
		progressed := false
		end := len(n.Pool) // one pass handles what exists now: with everybody correct and SkipTimeoutCommit the network never pauses
		for k := 0; k < end; k++ {
			for _, nd := range n.Nodes {
				if nd == victim && !includeVictim {
					continue
				}
				if nd.Crashed == nil && !nd.Delivered[k] {
					n.Deliver(nd, k)
					progressed = true
				}
			}
		}
		if !progressed {
			for _, nd := range n.Nodes {
				if nd == victim && !includeVictim {
					continue
				}
				if nd.Crashed != nil {
					continue
				}
				sch := nd.Ticker.Scheduled()
				for j := len(sch) - 1; j >= 0; j-- {
					if !nd.Fired[j] {
						n.FireTimeout(nd, j)
						progressed = true
						break
					}
				}
			}
		}
		return progressed
	}
	warmHeights := rapid.IntRange(0, 3).Draw(t, "warmheights") // full heights everybody (victim included) completes first
	if !victimStarted {
		warmHeights = 0
	}
	for i := 0; i < 400 && victim.Script.Height() < uint64(warmHeights); i++ {
		fairStep(true)
	}
	for i := 0; i < rapid.IntRange(0, 6).Draw(t, "otherssteps"); i++ {
		fairStep(false)
	}
	prefix := rapid.IntRange(0, 14).Draw(t, "victimprefix")
	if !victimStarted {
		prefix = 0
	}
	for k, c := 0, 0; k < len(n.Pool) && c < prefix; k++ {
		if !victim.Delivered[k] {
			n.Deliver(victim, k)
			c++
		}
	}
	if victim.Crashed != nil {
		t.Fatalf("victim crashed on honest traffic: %v", victim.Crashed)
	}
	// the node may run with keep_latest_blocks: at some point older blocks disappear from its store
	pruneAt, pruneKeep := -1, uint64(0)
	if victim.Script.Height() >= 2 && rapid.IntRange(0, 2).Draw(t, "pruned") == 0 {
		pruneAt, pruneKeep = rapid.IntRange(0, 3).Draw(t, "pruneat"), uint64(rapid.IntRange(1, 2).Draw(t, "keep"))
	}
	rs0 := victim.CS.GetRoundState()
	stateLabel := fmt.Sprintf("h%d_step%d_proposal%v_block%v_lastcommit%v", min(int(rs0.Height), 3), rs0.Step, rs0.Proposal != nil, rs0.ProposalBlock != nil, rs0.LastCommit != nil)
	vstat.Label("state_" + stateLabel)

	// the real reactor in front of the victim's state machine; fast-sync start keeps it free of goroutines
	sw := newFakeSwitch()
	conR := consensus.NewConsensusReactor(victim.CS, true, sw)
	conR.SetLogger(log.NewNopLogger())
	if err := conR.Start(); err != nil {
		t.Fatalf("reactor: %v", err)
	}
	conR.VerifSetFastSync(false)
	peer := newFakePeer("hostile-peer")
	pstate := consensus.NewPeerState(peer).SetLogger(log.NewNopLogger())
	peer.Set(types.PeerStateKey, pstate)

	signer := -1
	role := "stranger"
	if rapid.Bool().Draw(t, "isvalidator") {
		signer = rapid.IntRange(1, nv-1).Draw(t, "signer") // holds ONE validator key (1/4 of the power)
		role = "validator"
		if rapid.IntRange(0, 9).Draw(t, "beproposer") < 6 {
			// ... and it is the proposer of the victim's current round (unless that is the victim itself)
			prop := victim.CS.GetRoundState().Validators.GetProposer()
			for i := 1; i < nv; i++ {
				if string(vals[i].Addr) == string(prop.Address) {
					signer = i
					role = "proposer"
				}
			}
		}
	}
	if signer >= 0 {
		// The hostile peer IS that validator from now on: its honest twin in the simulation falls silent (what it emitted before
		// stays on the network).
		n.Nodes[signer].Crashed = "silenced: the hostile peer holds this validator's key"
	}
	// In a third of the cases the victim writes a REAL write-ahead log (baseWAL over an autofile group in the scratch
	// directory), like a started node: receiveRoutine logs every peer message BEFORE looking at it, baseWAL.Write panics
	// when the record cannot be encoded, and what was logged must be readable again when the node restarts.
	var wal interface {
		consensus.WAL
		Stop() error
	}
	walPath := ""
	if rapid.IntRange(0, 2).Draw(t, "realwal") == 0 {
		walDir := filepath.Join(os.Getenv("VERIF_SCRATCH"), fmt.Sprintf("c16wal-%d-%d", os.Getpid(), atomic.AddInt64(&walCtr, 1)))
		if os.Getenv("VERIF_SCRATCH") == "" {
			walDir = filepath.Join(os.TempDir(), filepath.Base(walDir))
		}
		walPath = filepath.Join(walDir, "wal")
		bw, err := consensus.NewWAL(walPath)
		if err != nil {
			t.Fatalf("wal: %v", err)
		}
		bw.SetLogger(log.NewNopLogger())
		if err := bw.Start(); err != nil {
			t.Fatalf("wal start: %v", err)
		}
		wal = bw
		victim.CS.VerifSetWAL(bw)
		defer func() { bw.Stop(); os.RemoveAll(walDir) }()
		vstat.Label("victim_with_real_wal")
	}
	nmsgs := rapid.IntRange(1, 5).Draw(t, "nmsgs")
	var trace []string
	reached := 0
	equivocated := false
	for i := 0; i < nmsgs; i++ {
		if i == pruneAt && victim.Script.Prune(pruneKeep) > 0 {
			vstat.Label("victim_pruned_old_blocks")
			trace = append(trace, fmt.Sprintf("(the node prunes its block store, keeping %d)", pruneKeep))
		}
		prefer := ""
		if i == 0 && pruneAt >= 0 {
			prefer = "nrs-aligned" // a pruning node is interesting when the peer claims to be behind
		}
		hm := genHostile(t, n, victim, signer, pstate, prefer)
		if hm == nil {
			continue
		}
		if hm.vote != nil && signer >= 0 {
			for _, e := range n.Pool {
				if vm, ok := e.Msg.(*consensus.VoteMessage); ok && e.From == signer && vm.Vote != nil && vm.Vote.Height == hm.vote.Height && vm.Vote.Round == hm.vote.Round && vm.Vote.Type == hm.vote.Type && !vm.Vote.BlockID.Equals(hm.vote.BlockID) {
					equivocated = true
				}
			}
		}
		before := digest(victim.CS)
		var ms0, ms1 runtime.MemStats
		runtime.ReadMemStats(&ms0)
		var rpanic interface{}
		func() {
			// MConnection.recvRoutine recovers a panic of Reactor.Receive and only stops that peer's connection
			defer func() { rpanic = recover() }()
			conR.Receive(hm.ch, peer, hm.bytes)
			for _, mb := range hm.more {
				conR.Receive(mb.ch, peer, mb.bytes)
			}
		}()
		// nothing the reactor did for this peer may leave the node's state lock or the peer-state lock held
		if !within(20*time.Second, func() { victim.CS.GetRoundState(); pstate.GetRoundState() }) {
			trace = append(trace, fmt.Sprintf("%s msg %d [%s] ch=%#x len=%d (%s): reactor panic=%v", role, i, hm.desc, hm.ch, len(hm.bytes), stateLabel, rpanic != nil))
			vstat.Violation(t, P, "node-wedged-after-message", "after Reactor.Receive returned (panic recovered per connection: %v) the consensus state lock or the peer-state lock is still held: the consensus routine blocks on its next message\n%s", rpanic != nil, strings.Join(trace, "\n"))
			return
		}
		queued := victim.CS.VerifPeerQueueLen()
		var hpanic interface{}
		ok := within(20*time.Second, func() { _, hpanic = victim.CS.VerifDrainPeerQueue() })
		runtime.ReadMemStats(&ms1)
		trace = append(trace, fmt.Sprintf("%s msg %d [%s] ch=%#x len=%d (%s): reactor panic=%v queued=%d", role, i, hm.desc, hm.ch, len(hm.bytes), stateLabel, rpanic != nil, queued))
		vstat.Label("msg_" + strings.SplitN(hm.desc, " ", 2)[0])
		if queued > 0 {
			reached++
			vstat.Label("reached_state_machine_" + strings.SplitN(hm.desc, " ", 2)[0])
		}
		if !ok {
			vstat.Violation(t, P, "consensus-wedged-after-message", "the consensus routine does not return from handling a message (a lock left held?)\n%s", strings.Join(trace, "\n"))
			return
		}
		if hpanic != nil {
			key := "consensus-routine-panics:" + rootCause(consensus.VerifLastPanicStack())
			vstat.Violation(t, P, key, "the consensus state machine panicked (%v) on a message from a single peer; the routine exits on panic, consensus halts\n%s", hpanic, strings.Join(trace, "\n"))
			return
		}
		if alloc := ms1.TotalAlloc - ms0.TotalAlloc; alloc > 64<<20 {
			vstat.Violation(t, P, "unbounded-allocation-per-message", "one message of %d bytes made the node allocate %d MiB\n%s", len(hm.bytes), alloc>>20, strings.Join(trace, "\n"))
			return
		}
		// own messages the node may have produced
		if sent, rec := victim.CS.VerifDrainInternal(); rec != nil {
			key := "consensus-routine-panics:" + rootCause(consensus.VerifLastPanicStack())
			vstat.Violation(t, P, key, "the consensus state machine panicked (%v) while handling its own follow-up messages\n%s", rec, strings.Join(trace, "\n"))
			return
		} else {
			for _, m := range sent {
				n.Pool = append(n.Pool, consim.Emitted{From: victim.Idx, Msg: m})
			}
		}
		if !hm.legit {
			if after := digest(victim.CS); after != before {
				vstat.Violation(t, P, "state-changed-by-invalid-message", "a message that is not a well-formed, correctly signed message of a current validator changed the consensus state:\nbefore: %s\nafter:  %s\n%s", before, after, strings.Join(trace, "\n"))
				return
			}
		}
		// The reactor's gossip routines for this peer read what the peer has claimed about itself.  In a node they are
		// goroutines without a recover: a panic there ends the process, and with it the consensus routine.
		for which, name := range []string{"gossipDataRoutine", "gossipVotesRoutine", "queryMaj23Routine"} {
			peer.mu.Lock()
			peer.budget = 5
			peer.mu.Unlock()
			var grec interface{}
			runtime.ReadMemStats(&ms0)
			fin := within(20*time.Second, func() { grec = conR.VerifRunGossip(peer, pstate, which) })
			runtime.ReadMemStats(&ms1)
			peer.mu.Lock()
			peer.budget = 0
			peer.mu.Unlock()
			if !fin {
				vstat.Violation(t, P, "gossip-routine-wedged:"+name, "%s does not come back for its next iteration after the peer's messages\n%s", name, strings.Join(trace, "\n"))
				return
			}
			if grec != nil {
				vstat.Label("gossip_panic")
				key := "gossip-routine-panics:" + rootCause(consensus.VerifLastPanicStack())
				vstat.Violation(t, P, key, "%s panicked (%v) on what a single peer claimed about itself; the routine is a goroutine without recover, the process ends\n%s", name, grec, strings.Join(trace, "\n"))
				return
			}
			if alloc := ms1.TotalAlloc - ms0.TotalAlloc; alloc > 64<<20 {
				vstat.Violation(t, P, "unbounded-allocation-in-gossip:"+name, "after one message of %d bytes %s allocated %d MiB in five iterations\n%s", len(hm.bytes), name, alloc>>20, strings.Join(trace, "\n"))
				return
			}
		}
		if peer.sent > 0 {
			vstat.Label("gossip_sent_something_to_peer")
		}
		// the reactor itself must still be usable for other peers: a lock left held by a panicking Receive wedges the node
		if rpanic != nil {
			other := newFakePeer("other-peer")
			other.Set(types.PeerStateKey, consensus.NewPeerState(other).SetLogger(log.NewNopLogger()))
			good := enc(&consensus.HasVoteMessage{Height: rs0.Height, Round: 0, Type: 1, Index: 0})
			if !within(20*time.Second, func() {
				defer func() { recover() }()
				conR.Receive(consensus.StateChannel, other, good)
				victim.CS.GetRoundState()
			}) {
				vstat.Violation(t, P, "node-wedged-after-reactor-panic", "after a panic in Reactor.Receive (recovered per connection) the node no longer serves other peers / its state lock is held\n%s", strings.Join(trace, "\n"))
				return
			}
			vstat.Label("reactor_panic_recovered_per_connection")
		}
	}
	if wal != nil {
		// a restart must be able to read the log again: every record the node wrote decodes
		if g, ok := wal.(interface{ Group() *auto.Group }); ok {
			g.Group().Flush()
			gr, err := g.Group().NewReader(0)
			if err == nil {
				dec := consensus.NewWALDecoder(gr)
				nrec := 0
				for {
					_, derr := dec.Decode()
					if derr == io.EOF {
						break
					}
					if derr != nil {
						gr.Close()
						vstat.Violation(t, P, "wal-unreadable-after-peer-message", "after the peer's messages the node's own write-ahead log cannot be read back (record %d: %v): the node logged a peer message it cannot replay: catchupReplay of this height fails and a restarted node goes on without its own votes and lock of the height\n%s", nrec, derr, strings.Join(trace, "\n"))
						return
					}
					nrec++
				}
				gr.Close()
				vstat.Label("wal_read_back")
			}
		}
	}
	// afterwards the honest traffic still leads the victim to commit: the others produce one more height, the victim gets
	// every message; when it sits idle its peers' catch-up gossip is modelled by offering it the pool of its height again
	if !victimStarted {
		n.Start(victim)
	}
	target := victim.Script.Height() + 1
	for _, nd := range n.Nodes[1:] {
		if h := nd.Script.Height(); h > target {
			target = h
		}
	}
	heightOf := func(m consensus.ConsensusMessage) uint64 {
		switch v := m.(type) {
		case *consensus.VoteMessage:
			if v.Vote != nil {
				return v.Vote.Height
			}
		case *consensus.ProposalMessage:
			if v.Proposal != nil {
				return v.Proposal.Height
			}
		case *consensus.BlockPartMessage:
			return v.Height
		}
		return 0
	}
	// Some of the following rounds are starved (their proposals reach nobody), so that the nodes walk through a few rounds one
	// at a time - into the rounds the peer may have opened on the victim - before a round decides.
	starve := rapid.IntRange(0, 4).Draw(t, "starvedrounds")
	if starve > 0 {
		vstat.Label("post_schedule_with_starved_rounds")
	}
	starveH, starveFrom := victim.CS.GetRoundState().Height, victim.CS.GetRoundState().Round
	for _, nd := range n.Nodes {
		if rs := nd.CS.GetRoundState(); nd.Crashed == nil && rs.Height == starveH && rs.Round > starveFrom {
			starveFrom = rs.Round
		}
	}
	// (a round somebody other than its proposer has already seen the proposal of goes on normally: withholding the rest of
	// its parts would leave a node that learns the decision without the block, which real gossip repairs)
	for k, e := range n.Pool {
		if pm, ok := e.Msg.(*consensus.ProposalMessage); ok && !e.Byz && pm.Proposal != nil && pm.Proposal.Height == starveH && pm.Proposal.Round >= starveFrom {
			for _, nd := range n.Nodes {
				if nd.Idx != e.From && nd.Delivered[k] && pm.Proposal.Round+1 > starveFrom {
					starveFrom = pm.Proposal.Round + 1
				}
			}
		}
	}
	starved := func(m consensus.ConsensusMessage) bool {
		switch v := m.(type) {
		case *consensus.ProposalMessage:
			return v.Proposal != nil && v.Proposal.Height == starveH && v.Proposal.Round >= starveFrom && v.Proposal.Round < starveFrom+starve
		case *consensus.BlockPartMessage:
			return v.Height == starveH && v.Round >= starveFrom && v.Round < starveFrom+starve
		}
		return false
	}
	for i := 0; i < 200+100*starve && victim.Script.Height() < target; i++ {
		progressed := false
		end := len(n.Pool)
		for k := 0; k < end; k++ {
			if !n.Pool[k].Byz && starved(n.Pool[k].Msg) {
				for _, nd := range n.Nodes {
					if nd.Idx != n.Pool[k].From {
						nd.Delivered[k] = true
					}
				}
			}
			for _, nd := range n.Nodes {
				if nd.Crashed != nil || nd.Delivered[k] {
					continue
				}
				if nd != victim && nd.Script.Height() >= target {
					continue // the others stop once the target height exists
				}
				n.Deliver(nd, k)
				progressed = true
			}
		}
		if victim.Crashed != nil {
			key := "consensus-routine-panics:" + rootCause(consensus.VerifLastPanicStack())
			vstat.Violation(t, P, key, "after the hostile messages the victim panicked on honest traffic: %v\n%s", victim.Crashed, strings.Join(trace, "\n"))
			return
		}
		if progressed {
			continue
		}
		for _, nd := range n.Nodes {
			if nd.Crashed != nil || (nd != victim && nd.Script.Height() >= target) {
				continue
			}
			sch := nd.Ticker.Scheduled()
			for j := len(sch) - 1; j >= 0; j-- {
				if !nd.Fired[j] {
					n.FireTimeout(nd, j)
					progressed = true
					break
				}
			}
		}
		if !progressed {
			// catch-up: everything of the victim's current height is offered again
			vh := victim.CS.GetRoundState().Height
			for k := range n.Pool {
				if h := heightOf(n.Pool[k].Msg); h == vh || h+1 == vh {
					delete(victim.Delivered, k)
				}
			}
		}
	}
	if equivocated {
		// The hostile key signed against its own earlier honest vote.  Which of the two the victim admitted first decides what it
		// still needs, and real nodes settle that with majority claims (VoteSetMaj23) gossiped by the reactor routines, which
		// are not simulated: convergence is not demanded for these cases (crash-freedom above still was).
		vstat.Label("liveness_not_judged_after_equivocation")
	} else if victim.Script.Height() < target {
		// with the hostile validator silent the three correct ones hold 3/4 of the power: under this fair schedule
		// (every message delivered, timeouts fired when idle, 120 rounds of that) they must get there, and only together
		vstat.Violation(t, P, "victim-stuck-after-hostile-messages", "under a fair schedule the victim did not reach height %d (it is at %d) after the hostile messages; victim state: %s\n%s", target, victim.Script.Height(), digest(victim.CS), strings.Join(trace, "\n"))
		return
	}
	if !equivocated {
		vstat.Label("victim_committed_afterwards")
	}
	if reached > 0 {
		vstat.NonTrivial(strings.Join(trace, "|"))
		if vstat.WantSample() {
			vstat.Sample(map[string]interface{}{"state": stateLabel, "role": role, "messages": trace})
		}
	}
}

func TestHostilePeer(t *testing.T) {
	rapid.Check(t, runCase)
}
