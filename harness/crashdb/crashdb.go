// Package crashdb records, in program order, every durable write a node issues to its databases, so that a harness
// can afterwards materialise the on-disk image the node would have left had the process died after any prefix of
// those writes ("crash at a write boundary").  A batch is one atomic unit, like in LevelDB.  Side files that the
// node writes directly (the flat-KV undo log kvState.wal) are sampled before and after every database write: file
// writes happen strictly between two database writes of the same goroutine, so the pair (databases after k writes,
// file as sampled before write k+1) is exactly the state a crash just before write k+1 leaves behind.
package crashdb

import (
	"os"
	"sync"

	dbm "github.com/lianxiangcloud/linkchain/libs/db"
)

// KV is one mutation; Del marks a deletion.
type KV struct {
	Key, Value []byte
	Del        bool
}

// Op is one atomic durable write.
type Op struct {
	DB       string
	KVs      []KV
	Batch    bool
	FilePre  map[string][]byte // side files as they were just before the write (nil entry = file absent)
	FilePost map[string][]byte // ... and right after it returned
	Mark     string            // set on pseudo-ops inserted with Recorder.Mark (no KVs)
}

// Recorder is shared by all wrapped databases of one node.
type Recorder struct {
	mu    sync.Mutex
	ops   []Op
	on    bool
	files []string // absolute paths sampled around every write
}

// NewRecorder returns a recorder that is switched off.
func NewRecorder(sideFiles ...string) *Recorder { return &Recorder{files: sideFiles} }

// Start begins recording (forgetting anything recorded before).
func (r *Recorder) Start() { r.mu.Lock(); r.ops, r.on = nil, true; r.mu.Unlock() }

// Stop ends recording and returns the log.
func (r *Recorder) Stop() []Op {
	r.mu.Lock()
	defer r.mu.Unlock()
	r.on = false
	return r.ops
}

// Len is the number of recorded units so far.
func (r *Recorder) Len() int { r.mu.Lock(); defer r.mu.Unlock(); return len(r.ops) }

// Mark inserts a named position into the log (it is not a write).
func (r *Recorder) Mark(name string) {
	r.mu.Lock()
	if r.on {
		r.ops = append(r.ops, Op{Mark: name, FilePre: r.sample(), FilePost: nil})
	}
	r.mu.Unlock()
}

func (r *Recorder) sample() map[string][]byte {
	if len(r.files) == 0 {
		return nil
	}
	m := make(map[string][]byte, len(r.files))
	for _, f := range r.files {
		b, err := os.ReadFile(f)
		if err != nil {
			m[f] = nil
		} else if b == nil {
			m[f] = []byte{}
		} else {
			m[f] = b
		}
	}
	return m
}

// do applies one unit to the inner database under the recorder's lock, so the log order is the order of effect.
func (r *Recorder) do(name string, kvs []KV, batch bool, apply func()) {
	r.mu.Lock()
	defer r.mu.Unlock()
	if !r.on {
		apply()
		return
	}
	op := Op{DB: name, KVs: kvs, Batch: batch, FilePre: r.sample()}
	apply()
	op.FilePost = r.sample()
	r.ops = append(r.ops, op)
}

func cp(b []byte) []byte {
	if b == nil {
		return nil
	}
	return append([]byte{}, b...)
}

// DB wraps a database; reads go straight through.
type DB struct {
	dbm.DB
	Name string
	rec  *Recorder
}

// Wrap wraps inner under the given name.
func (r *Recorder) Wrap(name string, inner dbm.DB) *DB { return &DB{DB: inner, Name: name, rec: r} }

func (d *DB) set(k, v []byte) {
	kv := KV{Key: cp(k), Value: cp(v)}
	if kv.Value == nil {
		kv.Value = []byte{}
	}
	d.rec.do(d.Name, []KV{kv}, false, func() { d.DB.Set(k, v) })
}
func (d *DB) del(k []byte) {
	d.rec.do(d.Name, []KV{{Key: cp(k), Del: true}}, false, func() { d.DB.Delete(k) })
}

func (d *DB) Set(k, v []byte)       { d.set(k, v) }
func (d *DB) SetSync(k, v []byte)   { d.set(k, v) }
func (d *DB) Put(k, v []byte) error { d.set(k, v); return nil }
func (d *DB) Delete(k []byte)       { d.del(k) }
func (d *DB) DeleteSync(k []byte)   { d.del(k) }
func (d *DB) Del(k []byte) error    { d.del(k); return nil }
func (d *DB) NewBatch() dbm.Batch   { return &batch{db: d} }

type batch struct {
	db   *DB
	kvs  []KV
	size int
}

func (b *batch) Set(k, v []byte) {
	kv := KV{Key: cp(k), Value: cp(v)}
	if kv.Value == nil {
		kv.Value = []byte{}
	}
	b.kvs = append(b.kvs, kv)
	b.size += len(v)
}
func (b *batch) Delete(k []byte) { b.kvs = append(b.kvs, KV{Key: cp(k), Del: true}); b.size++ }
func (b *batch) write() {
	if len(b.kvs) == 0 {
		return // nothing reaches the disk: not a write boundary
	}
	kvs := append([]KV(nil), b.kvs...)
	b.db.rec.do(b.db.Name, kvs, true, func() {
		for _, kv := range kvs {
			if kv.Del {
				b.db.DB.Delete(kv.Key)
			} else {
				b.db.DB.Set(kv.Key, kv.Value)
			}
		}
	})
}
func (b *batch) Write()         { b.write() }
func (b *batch) WriteSync()     { b.write() }
func (b *batch) Commit() error  { b.write(); return nil }
func (b *batch) ValueSize() int { return b.size }
func (b *batch) Reset()         { b.kvs, b.size = b.kvs[:0], 0 }

// Apply replays one recorded unit onto a plain database.
func Apply(db dbm.DB, op Op) {
	for _, kv := range op.KVs {
		if kv.Del {
			db.Delete(kv.Key)
		} else {
			db.Set(kv.Key, kv.Value)
		}
	}
}
