package c08

// TestBlockSigFieldMutant: the counterpart of TestBlockChargesRecoveredSender for the signature's own fields.  A plain or
// a token transfer of the victim is (in half of the cases) waiting in the node's pool, so the node's caches know it; a
// hand-made block then carries a twin that has the same signed fields, the same r and s, and ANOTHER V (the other recovery
// id, a legacy 27/28 value, the V of another chain parameter).  Such a twin recovers to whoever it recovers to - normally
// a stranger who holds nothing.  The proposer (attacker) charges the victim; the honest validator may accept that block
// only if what IT recovers from the twin's bytes is the victim.

import (
	"fmt"
	"math/big"
	"testing"

	"github.com/lianxiangcloud/linkchain/libs/ser"
	"github.com/lianxiangcloud/linkchain/types"
	"pgregory.net/rapid"

	"verifharness/chainsim"
	"verifharness/vstat"
	"verifharness/world"
)

func TestBlockSigFieldMutant(t *testing.T) {
	rapid.Check(t, func(t *rapid.T) {
		vstat.Eval()
		kind := rapid.SampledFrom([]string{"plain", "token", "token"}).Draw(t, "kind")
		s := chainsim.New(t, chainsim.Options{NumAccts: 2, NumWallets: 1, AllRich: true, RealCache: rapid.Bool().Draw(t, "realcache"), Tokens: kind == "token"})
		defer s.Close()
		a := s.Accts[0]
		n := s.W.App.GetNonce(a.Addr)
		var origTx types.Tx
		if kind == "token" {
			if len(s.Tokens) == 0 {
				t.Skip("no token")
			}
			tok := s.Tokens[rapid.IntRange(0, len(s.Tokens)-1).Draw(t, "tok")]
			bal := s.W.App.GetPendingStateDB().GetTokenBalance(a.Addr, tok)
			if bal.Sign() <= 0 {
				t.Skip("the victim holds nothing of that token")
			}
			amt := new(big.Int).Add(new(big.Int).Rsh(bal, 8), big.NewInt(1))
			origTx = world.TokenTransfer(a, tok, n, s.Accts[1].Addr, amt)
		} else {
			origTx = world.Transfer(a, n, s.Accts[1].Addr, chainsim.E(int64(rapid.IntRange(1, 500).Draw(t, "amt"))))
		}
		warm := rapid.Bool().Draw(t, "origincache")
		if warm {
			if err := s.W.Submit(origTx); err != nil {
				t.Fatalf("submit: %v", err)
			}
		}
		enc, _ := ser.EncodeToBytes(origTx)
		root, _, err := parseItem(enc)
		if err != nil {
			t.Fatalf("parse: %v", err)
		}
		vItem := root.list[6] // Transaction: nonce price gas to amount payload V R S
		if kind == "token" {
			vItem = root.list[7].list[0] // TokenTransaction: token nonce price gas to amount payload [V R S]
		}
		V := new(big.Int).SetBytes(vItem.str)
		if V.Cmp(big.NewInt(35)) < 0 {
			t.Fatalf("harness: unexpected V %v", V)
		}
		recid := new(big.Int).Mod(new(big.Int).Sub(V, big.NewInt(35)), big.NewInt(2)).Int64()
		what := rapid.SampledFrom([]string{"other-recovery-id", "other-recovery-id", "legacy-same-recovery-id", "legacy-other-recovery-id", "other-chain"}).Draw(t, "what")
		var V2 *big.Int
		switch what {
		case "other-recovery-id":
			V2 = new(big.Int).Add(V, big.NewInt(1-2*recid))
		case "legacy-same-recovery-id":
			V2 = big.NewInt(27 + recid)
		case "legacy-other-recovery-id":
			V2 = big.NewInt(28 - recid)
		default:
			V2 = new(big.Int).Add(V, big.NewInt(int64(2*rapid.IntRange(1, 40).Draw(t, "dchain")+int(rapid.IntRange(0, 1).Draw(t, "dpar")))))
		}
		vItem.str = V2.Bytes()
		var mut types.Tx
		if kind == "token" {
			var m types.TokenTransaction
			if err := ser.DecodeBytes(root.encode(), &m); err != nil {
				t.Skip("mutant does not decode")
			}
			m.StoreFrom(a.Addr) // the attacker's proposer path charges the victim
			mut = &m
		} else {
			var m types.Transaction
			if err := ser.DecodeBytes(root.encode(), &m); err != nil {
				t.Skip("mutant does not decode")
			}
			m.StoreFrom(a.Addr)
			mut = &m
		}
		acc, note := s.InjectAccepted(types.Txs{mut})
		// what a node that has never seen anything recovers from the twin's bytes
		cold, coldErr := chainsim.Fresh(mut).From()
		vstat.NonTrivial(fmt.Sprintf("%s|%s|%v|%v|%s", kind, what, warm, s.Spec.IsTrie, mut.Hash().Hex()))
		vstat.Label("sigfield_" + kind + "_" + what)
		if warm {
			vstat.Label("sigfield_original_in_cache")
		}
		if coldErr == nil && cold == a.Addr {
			vstat.Label("sigfield_twin_still_recovers_the_signer")
		}
		if acc && (coldErr != nil || cold != a.Addr) {
			vstat.Violation(t, P, "block:signature-twin-charged-to-original-signer", "a block carrying a twin of the victim's %s transfer with V %v instead of %v (same fields, r, s) is accepted while it charges the victim %s, although the twin's signature recovers to %s (%v); original pooled on the validator: %v; equal hashes: %v (%s)",
				kind, V2, V, a.Addr.Hex(), cold.Hex(), coldErr, warm, mut.Hash() == origTx.Hash(), note)
		}
		if mut.Hash() == origTx.Hash() {
			// not demanded by C08 in itself; it is what makes hash-keyed caches take one transaction for the other
			vstat.Label("sigfield_twin_shares_the_hash")
		}
	})
}
