// C08 — only the key holder can move funds; signatures bind every transaction field.
package c08

import (
	"bytes"
	"fmt"
	"math/big"
	"sync"
	"testing"

	"github.com/lianxiangcloud/linkchain/libs/common"
	"github.com/lianxiangcloud/linkchain/libs/crypto"
	lktypes "github.com/lianxiangcloud/linkchain/libs/cryptonote/types"
	"github.com/lianxiangcloud/linkchain/libs/ser"
	"github.com/lianxiangcloud/linkchain/types"
	"pgregory.net/rapid"

	"verifharness/chainsim"
	"verifharness/vstat"
	"verifharness/world"
)

const P = "C08"

const kUnprotected = "sig:unprotected-v27-28-signature-valid-under-every-chain-parameter"

func TestMain(m *testing.M) {
	world.Init()
	vstat.Main(m)
}

// ---------------------------------------------------------------- a tiny RLP item tree (the wire format of ser)

type item struct {
	isList bool
	str    []byte
	list   []*item
}

func parseItem(b []byte) (*item, []byte, error) {
	if len(b) == 0 {
		return nil, nil, fmt.Errorf("empty")
	}
	p := b[0]
	switch {
	case p < 0x80:
		return &item{str: []byte{p}}, b[1:], nil
	case p < 0xb8:
		n := int(p - 0x80)
		if len(b) < 1+n {
			return nil, nil, fmt.Errorf("short")
		}
		return &item{str: b[1 : 1+n]}, b[1+n:], nil
	case p < 0xc0:
		ll := int(p - 0xb7)
		if len(b) < 1+ll {
			return nil, nil, fmt.Errorf("short")
		}
		n := int(new(big.Int).SetBytes(b[1 : 1+ll]).Int64())
		if len(b) < 1+ll+n {
			return nil, nil, fmt.Errorf("short")
		}
		return &item{str: b[1+ll : 1+ll+n]}, b[1+ll+n:], nil
	default:
		var n, hdr int
		if p < 0xf8 {
			n, hdr = int(p-0xc0), 1
		} else {
			ll := int(p - 0xf7)
			if len(b) < 1+ll {
				return nil, nil, fmt.Errorf("short")
			}
			n, hdr = int(new(big.Int).SetBytes(b[1:1+ll]).Int64()), 1+ll
		}
		if len(b) < hdr+n {
			return nil, nil, fmt.Errorf("short")
		}
		it := &item{isList: true}
		body := b[hdr : hdr+n]
		for len(body) > 0 {
			c, rest, err := parseItem(body)
			if err != nil {
				return nil, nil, err
			}
			it.list = append(it.list, c)
			body = rest
		}
		return it, b[hdr+n:], nil
	}
}

func encLen(n int, short, long byte) []byte {
	if n < 56 {
		return []byte{short + byte(n)}
	}
	lb := new(big.Int).SetInt64(int64(n)).Bytes()
	return append([]byte{long + byte(len(lb))}, lb...)
}

func (it *item) encode() []byte {
	if !it.isList {
		if len(it.str) == 1 && it.str[0] < 0x80 {
			return []byte{it.str[0]}
		}
		return append(encLen(len(it.str), 0x80, 0xb7), it.str...)
	}
	var body []byte
	for _, c := range it.list {
		body = append(body, c.encode()...)
	}
	return append(encLen(len(body), 0xc0, 0xf7), body...)
}

func intItem(v *big.Int) *item { return &item{str: v.Bytes()} }

// ---------------------------------------------------------------- account transactions

type acctCase struct {
	kind   string
	tx     types.Tx
	enc    []byte
	fields map[string][]int // field name -> path in the item tree
}

var secpN, _ = new(big.Int).SetString("fffffffffffffffffffffffffffffffebaaedce6af48a03bbfd25e8cd0364141", 16)

func genAcctCase(t *rapid.T, signer world.Acct) *acctCase {
	kind := rapid.SampledFrom([]string{"transfer", "call", "create", "token"}).Draw(t, "kind")
	nonce := uint64(rapid.IntRange(0, 1000).Draw(t, "nonce"))
	to := common.BytesToAddress(rapid.SliceOfN(rapid.Byte(), 20, 20).Draw(t, "to"))
	amount := new(big.Int).Mul(big.NewInt(int64(rapid.IntRange(1, 1000000).Draw(t, "amount"))), big.NewInt(1e12))
	gas := uint64(rapid.IntRange(500000, 5000000).Draw(t, "gas"))
	data := rapid.SliceOfN(rapid.Byte(), 1, 40).Draw(t, "data")
	c := &acctCase{kind: kind}
	switch kind {
	case "transfer":
		c.tx = world.Transfer(signer, nonce, to, amount)
		c.fields = map[string][]int{"nonce": {0}, "gasPrice": {1}, "gasLimit": {2}, "to": {3}, "amount": {4}, "payload": {5}}
	case "call":
		c.tx = world.RawTx(signer, nonce, &to, amount, gas, world.GasPrice, data)
		c.fields = map[string][]int{"nonce": {0}, "gasPrice": {1}, "gasLimit": {2}, "to": {3}, "amount": {4}, "payload": {5}}
	case "create":
		c.tx = world.RawTx(signer, nonce, nil, amount, gas, world.GasPrice, data)
		c.fields = map[string][]int{"nonce": {0}, "gasPrice": {1}, "gasLimit": {2}, "to": {3}, "amount": {4}, "payload": {5}}
	case "token":
		tok := common.BytesToAddress(rapid.SliceOfN(rapid.Byte(), 20, 20).Draw(t, "token"))
		c.tx = world.RawTokenTx(signer, tok, nonce, to, amount, gas, world.GasPrice, data)
		c.fields = map[string][]int{"token": {0}, "nonce": {1}, "gasPrice": {2}, "gasLimit": {3}, "to": {4}, "amount": {5}, "payload": {6}}
	}
	var err error
	if c.enc, err = ser.EncodeToBytes(c.tx); err != nil {
		t.Fatalf("encode: %v", err)
	}
	return c
}

func (c *acctCase) sigPath(which int) []int { // 0=V 1=R 2=S
	if c.kind == "token" {
		return []int{7, which}
	}
	return []int{6 + which}
}

func at(root *item, path []int) *item {
	it := root
	for _, i := range path {
		it = it.list[i]
	}
	return it
}

func (c *acctCase) decode(enc []byte) (types.Tx, error) {
	if c.kind == "token" {
		var tx types.TokenTransaction
		if err := ser.DecodeBytes(enc, &tx); err != nil {
			return nil, err
		}
		return &tx, nil
	}
	var tx types.Transaction
	if err := ser.DecodeBytes(enc, &tx); err != nil {
		return nil, err
	}
	return &tx, nil
}

var (
	sharedOnce sync.Once
	shared     *world.World
)

// sharedWorld is a read-only node used as the censor for basic checks.
func sharedWorld(t interface{ Fatalf(string, ...interface{}) }) *world.World {
	sharedOnce.Do(func() {
		a := world.DetAcct(100)
		mc := world.DefaultMempoolConfig()
		mc.CacheSize = 0
		w, err := world.New(&world.Spec{IsTrie: true, Mempool: mc, Accounts: []world.GenesisAccount{{Addr: a.Addr, Balance: chainsim.E(1000000)}}})
		if err != nil {
			t.Fatalf("world: %v", err)
		}
		shared = w
	})
	return shared
}

// TestAccountSigBinding: every mutation of a signed field, of the chain parameter or of the signature values, applied
// to the wire encoding and decoded fresh, yields a different sender or a rejection.
func TestAccountSigBinding(t *testing.T) {
	rapid.Check(t, func(t *rapid.T) {
		vstat.Eval()
		w := sharedWorld(t)
		signer := world.DetAcct(100)
		c := genAcctCase(t, signer)
		orig, _, err := parseItem(c.enc)
		if err != nil || !orig.isList {
			t.Fatalf("cannot parse own encoding: %v", err)
		}
		// sanity of the harness: the untouched encoding recovers the signer
		if tx0, err := c.decode(orig.encode()); err != nil {
			t.Fatalf("round trip: %v", err)
		} else if f, err := tx0.From(); err != nil || f != signer.Addr {
			t.Fatalf("untouched tx recovers %v %v", f, err)
		}
		root, _, _ := parseItem(append([]byte(nil), c.enc...))
		var names []string
		for n := range c.fields {
			names = append(names, n)
		}
		ops := []string{"field", "field", "field", "multi-field", "r-zero", "s-zero", "r-ge-n", "s-ge-n", "high-s-twin", "flip-recid", "v-other-chain", "v-huge", "v-27-28-transplant", "v-arith", "v-arith",
			"sender-other-chain-param", "unprotected-resign", "other-chain-resign", "unprotected-high-s-twin"}
		op := rapid.SampledFrom(ops).Draw(t, "op")
		label := op
		mutField := func(name string) {
			it := at(root, c.fields[name])
			switch name {
			case "to", "token":
				if len(it.str) == 0 { // contract creation: give it a recipient
					it.str = bytes.Repeat([]byte{0x42}, 20)
				} else {
					b := append([]byte(nil), it.str...)
					b[rapid.IntRange(0, len(b)-1).Draw(t, "byte")] ^= byte(rapid.IntRange(1, 255).Draw(t, "xor"))
					it.str = b
				}
			case "payload":
				b := append([]byte(nil), it.str...)
				if len(b) == 0 || rapid.Bool().Draw(t, "append") {
					b = append(b, byte(rapid.IntRange(1, 255).Draw(t, "pb")))
				} else {
					b[rapid.IntRange(0, len(b)-1).Draw(t, "byte")] ^= byte(rapid.IntRange(1, 255).Draw(t, "xor"))
				}
				it.str = b
			default:
				v := new(big.Int).SetBytes(it.str)
				d := big.NewInt(int64(rapid.IntRange(1, 1000).Draw(t, "delta")))
				if rapid.Bool().Draw(t, "minus") && v.Cmp(d) >= 0 {
					v.Sub(v, d)
				} else {
					v.Add(v, d)
				}
				it.str = v.Bytes()
			}
		}
		V := new(big.Int).SetBytes(at(root, c.sigPath(0)).str)
		S := new(big.Int).SetBytes(at(root, c.sigPath(2)).str)
		mustReject := false // for encodings the property says are rejected (not merely "different sender")
		var mut types.Tx
		var derr error
		switch op {
		case "field":
			name := rapid.SampledFrom(names).Draw(t, "field")
			label = "field:" + name
			mutField(name)
		case "multi-field":
			k := rapid.IntRange(2, 3).Draw(t, "nfields")
			for i := 0; i < k; i++ {
				mutField(rapid.SampledFrom(names).Draw(t, "field"))
			}
		case "r-zero":
			at(root, c.sigPath(1)).str = nil
			mustReject = true
		case "s-zero":
			at(root, c.sigPath(2)).str = nil
			mustReject = true
		case "r-ge-n":
			at(root, c.sigPath(1)).str = new(big.Int).Add(secpN, big.NewInt(int64(rapid.IntRange(0, 5).Draw(t, "over")))).Bytes()
			mustReject = true
		case "s-ge-n":
			at(root, c.sigPath(2)).str = new(big.Int).Add(secpN, big.NewInt(int64(rapid.IntRange(0, 5).Draw(t, "over")))).Bytes()
			mustReject = true
		case "high-s-twin":
			// (r, N-s, v^1) verifies for the same key and message: the malleable twin must be refused
			at(root, c.sigPath(2)).str = new(big.Int).Sub(secpN, S).Bytes()
			v2 := new(big.Int).Set(V)
			if V.Bit(0) == 1 { // V = 35 + 2p + recid; 35 is odd, so odd V <=> recid 0
				v2.Add(v2, big.NewInt(1))
			} else {
				v2.Sub(v2, big.NewInt(1))
			}
			at(root, c.sigPath(0)).str = v2.Bytes()
			mustReject = true
		case "flip-recid":
			v2 := new(big.Int).Set(V)
			if V.Bit(0) == 1 {
				v2.Add(v2, big.NewInt(1))
			} else {
				v2.Sub(v2, big.NewInt(1))
			}
			at(root, c.sigPath(0)).str = v2.Bytes()
		case "v-other-chain":
			at(root, c.sigPath(0)).str = new(big.Int).Add(V, big.NewInt(int64(2*rapid.IntRange(1, 50).Draw(t, "chaindelta")))).Bytes()
			mustReject = true
		case "v-huge":
			at(root, c.sigPath(0)).str = bytes.Repeat([]byte{0xff}, rapid.IntRange(9, 33).Draw(t, "vlen"))
			mustReject = true
		case "v-arith":
			// r and s stay; V is replaced by a value arithmetically related to the genuine one: every other V must stop the
			// signature from being attributed to the key holder (a second accepted encoding is malleability; one that names
			// another chain parameter breaks the chain binding)
			p2 := new(big.Int).Mul(types.SignParam, big.NewInt(2))
			recid := new(big.Int).Sub(V, new(big.Int).Add(p2, big.NewInt(35))) // V = 35 + 2p + recid
			var v2 *big.Int
			switch kind := rapid.SampledFrom([]string{"sweep", "sweep", "small", "reflect", "reflect", "pow2", "plain", "halfparam"}).Draw(t, "varith"); kind {
			case "sweep":
				d := rapid.IntRange(1, 300).Draw(t, "vd")
				if rapid.Bool().Draw(t, "vminus") {
					d = -d
				}
				v2 = new(big.Int).Add(V, big.NewInt(int64(d)))
			case "small":
				v2 = big.NewInt(int64(rapid.IntRange(0, 80).Draw(t, "vsmall")))
			case "reflect":
				// 2p + 8 - (27 + r): the "plain" V comes out as -(27 + r)
				r := new(big.Int).Set(recid)
				if rapid.Bool().Draw(t, "otherrecid") {
					r.Sub(big.NewInt(1), r)
				}
				v2 = new(big.Int).Sub(new(big.Int).Add(p2, big.NewInt(8)), new(big.Int).Add(big.NewInt(27), r))
			case "pow2":
				k := rapid.SampledFrom([]uint{8, 16, 31, 32, 63, 64, 65, 128}).Draw(t, "vpow")
				v2 = new(big.Int).Add(V, new(big.Int).Lsh(big.NewInt(1), k))
			case "plain":
				v2 = new(big.Int).Add(big.NewInt(27), recid)
			default:
				v2 = new(big.Int).Add(new(big.Int).Add(types.SignParam, big.NewInt(35)), recid) // p instead of 2p
			}
			if v2.Sign() < 0 || v2.Cmp(V) == 0 {
				t.Skip("not a different non-negative V")
			}
			at(root, c.sigPath(0)).str = v2.Bytes()
		case "v-27-28-transplant":
			// keep r,s (made for this chain's hash), present them as an unprotected signature
			at(root, c.sigPath(0)).str = []byte{byte(27 + rapid.IntRange(0, 1).Draw(t, "recid"))}
		case "sender-other-chain-param":
			// same bytes, evaluated under another chain parameter
			tx0, _ := c.decode(c.enc)
			other := types.MakeSTDSigner(new(big.Int).Add(types.SignParam, big.NewInt(int64(rapid.IntRange(1, 50).Draw(t, "chaindelta")))))
			if rapid.Bool().Draw(t, "warmcache") {
				tx0.From() // sender cache now holds (this chain's signer, signer address)
				label += "-warm"
			}
			var f common.Address
			var err error
			switch v := tx0.(type) {
			case *types.Transaction:
				f, err = v.Sender(other)
			case *types.TokenTransaction:
				f, err = v.Sender(other)
			}
			vstat.NonTrivial(label + "|" + c.tx.Hash().Hex())
			vstat.Label("op_" + label)
			if err == nil && f == signer.Addr {
				vstat.Violation(t, P, "sig:valid-under-other-chain-parameter", "a %s transaction signed for chain parameter %v recovers its signer under another chain parameter", c.kind, types.SignParam)
			}
			return
		case "unprotected-high-s-twin":
			// The malleable twin (r, N-s, v^1) of a signature WITHOUT chain parameter (V = 27/28).  Such signatures are
			// accepted on this chain (the listed finding); their high-s twin verifies for the same key and message and must
			// be refused like the twin of a protected signature, or anybody can re-encode somebody's transaction into a
			// second one with another hash.
			nf := 6
			if c.kind == "token" {
				nf = 7
			}
			hh := crypto.Keccak256((&item{isList: true, list: root.list[:nf]}).encode())
			sig, err := crypto.Sign(hh, signer.Key)
			if err != nil {
				t.Fatalf("sign: %v", err)
			}
			s0 := new(big.Int).SetBytes(sig[32:64])
			at(root, c.sigPath(1)).str = new(big.Int).SetBytes(sig[:32]).Bytes()
			at(root, c.sigPath(2)).str = new(big.Int).Sub(secpN, s0).Bytes()
			at(root, c.sigPath(0)).str = []byte{27 + (sig[64] ^ 1)}
			mut, derr = c.decode(root.encode())
			vstat.NonTrivial(label + "|" + c.tx.Hash().Hex())
			vstat.Label("op_" + label)
			if derr != nil {
				return
			}
			f, ferr := mut.From()
			basic := w.App.CheckTx(mut, true)
			if ferr == nil && f == signer.Addr {
				vstat.Violation(t, P, "sig:malformed-values-accepted:legacy-high-s-twin", "the high-s twin (r, N-s, v^1) of a V=27/28 signature of a %s transaction recovers the key holder %s (basic check: %v)", c.kind, f.Hex(), basic)
			}
			return
		case "unprotected-resign", "other-chain-resign":
			// the key holder signs the same fields for another context: no chain parameter at all (V = 27/28), or another chain's parameter
			var sg types.STDSigner = types.STDHomesteadSigner{}
			if op == "other-chain-resign" {
				sg = types.MakeSTDSigner(new(big.Int).Add(types.SignParam, big.NewInt(int64(rapid.IntRange(1, 50).Draw(t, "chaindelta")))))
			}
			var enc []byte
			if op == "unprotected-resign" {
				// wire level: the pre-chain-parameter signing hash is the hash of the list of the signed fields alone
				nf := 6
				if c.kind == "token" {
					nf = 7
				}
				h := crypto.Keccak256((&item{isList: true, list: root.list[:nf]}).encode())
				sig, err := crypto.Sign(h, signer.Key)
				if err != nil {
					t.Fatalf("sign: %v", err)
				}
				at(root, c.sigPath(1)).str = new(big.Int).SetBytes(sig[:32]).Bytes()
				at(root, c.sigPath(2)).str = new(big.Int).SetBytes(sig[32:64]).Bytes()
				at(root, c.sigPath(0)).str = []byte{27 + sig[64]}
				enc = root.encode()
			} else {
				tx0, _ := c.decode(c.enc)
				var err error
				switch v := tx0.(type) {
				case *types.Transaction:
					err = v.Sign(sg, signer.Key)
				case *types.TokenTransaction:
					err = v.Sign(sg, signer.Key)
				}
				if err != nil {
					t.Fatalf("resign: %v", err)
				}
				enc, _ = ser.EncodeToBytes(tx0)
			}
			mut, derr = c.decode(enc)
			vstat.NonTrivial(label + "|" + c.tx.Hash().Hex())
			vstat.Label("op_" + label)
			if derr != nil {
				return
			}
			f, err := mut.From()
			basic := w.App.CheckTx(mut, true)
			if err == nil && f == signer.Addr {
				// the chain attributes to the key holder a transaction that was NOT signed for this chain
				if op == "unprotected-resign" {
					if vstat.WantSample() {
						vstat.Sample(map[string]interface{}{"op": op, "kind": c.kind, "recovered": f.Hex(), "basic_check": fmt.Sprint(basic)})
					}
					vstat.Violation(t, P, kUnprotected, "a %s transaction signed WITHOUT any chain parameter (V=27/28) recovers its signer on this chain (basic check: %v), and so it does under every other chain parameter", c.kind, basic)
				} else {
					vstat.Violation(t, P, "sig:other-chain-signature-accepted", "a %s transaction signed for another chain parameter recovers its signer on this chain (basic check: %v)", c.kind, basic)
				}
			}
			return
		}
		if bytes.Equal(root.encode(), c.enc) {
			t.Skip("mutations cancelled each other")
		}
		mut, derr = c.decode(root.encode())
		vstat.Label("op_" + label)
		if derr != nil {
			vstat.Label("undecodable")
			return // rejected at the decoder
		}
		vstat.NonTrivial(label + "|" + c.tx.Hash().Hex())
		f, err := mut.From()
		basic := w.App.CheckTx(mut, true)
		if vstat.WantSample() {
			vstat.Sample(map[string]interface{}{"op": label, "kind": c.kind, "recovered": f.Hex(), "recover_err": fmt.Sprint(err), "basic_check": fmt.Sprint(basic)})
		}
		if err == nil && f == signer.Addr {
			vstat.Violation(t, P, "sig:does-not-bind:"+label, "after mutation %q of a signed %s transaction the recovered sender is still the signer %s (basic check: %v)", label, c.kind, f.Hex(), basic)
		}
		if mustReject && err == nil && basic == nil {
			vstat.Violation(t, P, "sig:malformed-values-accepted:"+label, "signature encoding %q of a %s transaction is accepted (sender %s)", label, c.kind, f.Hex())
		}
	})
}

// ---------------------------------------------------------------- charging: cache states and blocks

// TestBlockChargesRecoveredSender: while the mempool cache holds the original (basic-checked) transaction, a hand-made
// block carries a mutant with the original's signature.  The honest validator refuses the block, or whoever is charged is
// not the original signer.
func TestBlockChargesRecoveredSender(t *testing.T) {
	rapid.Check(t, func(t *rapid.T) {
		vstat.Eval()
		s := chainsim.New(t, chainsim.Options{NumAccts: 2, NumWallets: 1, AllRich: true, RealCache: rapid.Bool().Draw(t, "realcache")})
		defer s.Close()
		a := s.Accts[0]
		attacker := s.Sinks()[0]
		n := s.W.App.GetNonce(a.Addr)
		amt := chainsim.E(int64(rapid.IntRange(1, 500).Draw(t, "amt")))
		origTx := world.Transfer(a, n, s.Accts[1].Addr, amt)
		warm := rapid.Bool().Draw(t, "origincache")
		if warm {
			if err := s.W.Submit(origTx); err != nil {
				t.Fatalf("submit: %v", err)
			}
		}
		enc, _ := ser.EncodeToBytes(origTx)
		root, _, _ := parseItem(enc)
		what := rapid.SampledFrom([]string{"to", "amount", "nonce-same-amount-up", "same-fields-other-signer"}).Draw(t, "what")
		switch what {
		case "same-fields-other-signer":
			// byte-identical signed fields, but the signature is by a key that holds nothing
			o := world.Transfer(world.DetAcct(999), n, s.Accts[1].Addr, amt)
			oenc, _ := ser.EncodeToBytes(o)
			root, _, _ = parseItem(oenc)
		case "to":
			root.list[3].str = attacker.Bytes()
		case "amount":
			root.list[4].str = new(big.Int).Add(amt, chainsim.E(1)).Bytes()
			root.list[2].str = new(big.Int).SetUint64(world.TransferGas(new(big.Int).Add(amt, chainsim.E(1)))).Bytes()
		case "nonce-same-amount-up":
			root.list[4].str = new(big.Int).Mul(amt, big.NewInt(2)).Bytes()
			root.list[2].str = new(big.Int).SetUint64(world.TransferGas(new(big.Int).Mul(amt, big.NewInt(2)))).Bytes()
		}
		var mut types.Transaction
		if err := ser.DecodeBytes(root.encode(), &mut); err != nil {
			t.Skip("mutant does not decode")
		}
		before := s.Snapshot()
		// The attacker builds the block with its own (modified) software: it can make its proposer path charge whoever it likes,
		// here by pre-loading the mutant's sender cache with the victim.  Validators receive the block as bytes (cold caches);
		// only what THEY recover counts.
		mut.StoreFrom(a.Addr)
		acc, note := s.InjectAccepted(types.Txs{&mut})
		vstat.NonTrivial(fmt.Sprintf("%s|%v|%v|%s", what, warm, s.Spec.IsTrie, mut.Hash().Hex()))
		vstat.Label("mutant_" + what)
		if warm {
			vstat.Label("original_in_cache")
		}
		if acc {
			// the honest validator accepted a block whose header was computed by charging the victim
			vstat.Violation(t, P, "block:mutant-charged-to-original-signer", "a block carrying a %s-mutant (not signed by the victim for these fields) is accepted although it charges the victim (%s)", what, note)
		}
		_ = before
		// the legitimate transaction itself, received as bytes, is accepted and attributed to its signer
		fresh := chainsim.Fresh(origTx)
		if f, err := fresh.From(); err != nil || f != a.Addr {
			vstat.Violation(t, P, "sig:honest-tx-not-attributed", "an untouched transaction recovers %v, %v", f, err)
		}
	})
}

// ---------------------------------------------------------------- confidential outputs and spend authorisations

func freshU(tx *types.UTXOTransaction) *types.UTXOTransaction {
	return chainsim.Fresh(tx).(*types.UTXOTransaction)
}

// TestConfidentialBinding: (1) an output is recognised and decoded only with the destination's keys; (2) a spend
// authorisation (ring signature / MLSAG, and the account signature of account->confidential) does not survive any change to
// inputs, outputs, token, transaction keys, fee, extra or the account signature.
func TestConfidentialBinding(t *testing.T) {
	rapid.Check(t, func(t *rapid.T) {
		vstat.Eval()
		s := chainsim.New(t, chainsim.Options{NumAccts: 2, NumWallets: 3, AllRich: true})
		defer s.Close()
		strangers := []*world.Wallet{world.NewWallet(900, 2), world.NewWallet(901, 2)}
		// block 1: outputs to main and sub-addresses
		type sent struct {
			w   *world.Wallet
			sub uint64
			amt *big.Int
		}
		var sentOuts []sent
		var txs []*types.UTXOTransaction
		for i := 0; i < 3; i++ {
			from := s.Accts[0]
			nd := rapid.IntRange(1, 2).Draw(t, "nd")
			var dests []types.DestEntry
			total := new(big.Int)
			for j := 0; j < nd; j++ {
				w := s.Wallets[rapid.IntRange(0, len(s.Wallets)-1).Draw(t, "w")]
				sub := uint64(rapid.IntRange(0, 2).Draw(t, "sub"))
				amt := chainsim.E(int64(rapid.IntRange(200, 900).Draw(t, "amt")))
				dests = append(dests, w.Dest(sub, amt))
				sentOuts = append(sentOuts, sent{w, sub, amt})
				total.Add(total, amt)
			}
			fee := new(big.Int).Mul(new(big.Int).SetUint64(types.CalNewAmountGas(total, types.EverLiankeFee)), world.GasPrice)
			tx, err := world.AccountToUTXO(from, s.W.App.GetNonce(from.Addr), new(big.Int).Add(total, fee), dests, common.EmptyAddress, big.NewInt(0))
			if err != nil {
				t.Fatalf("a2u: %v", err)
			}
			if err := s.W.Submit(tx); err != nil {
				t.Fatalf("submit: %v", err)
			}
			txs = append(txs, tx)
		}
		blk := s.W.Propose(100, world.GenesisTime+10, common.EmptyAddress)
		if err := s.Commit(blk, nil); err != nil {
			t.Fatalf("commit: %v", err)
		}
		// (1) ownership: per transaction, in block order
		gi := uint64(0)
		k := 0
		for _, btx := range blk.Data.Txs {
			utx := btx.(*types.UTXOTransaction)
			n := len(utx.GetOutputData(1))
			for _, st := range strangers {
				found, _ := st.ScanTx(freshU(utx), 1, gi)
				if len(found) > 0 {
					vstat.Violation(t, P, "utxo:output-recognised-by-non-owner", "a wallet that is not the destination recognises %d outputs of tx %s", len(found), utx.Hash().Hex())
				}
			}
			// the destination finds it with the right amount (fresh wallets with the same keys)
			for j := 0; j < n; j++ {
				so := sentOuts[k]
				k++
				var owner *world.Wallet
				for wi, w := range s.Wallets {
					if w == so.w {
						owner = world.NewWallet(uint64(500+wi), 2)
					}
				}
				found, _ := owner.ScanTx(freshU(utx), 1, gi)
				ok := false
				for _, f := range found {
					if f.OutIndex == uint64(j) && f.Amount.Cmp(so.amt) == 0 && f.SubIdx == so.sub {
						ok = true
					}
				}
				if !ok {
					vstat.Violation(t, P, "utxo:destination-cannot-decode", "destination (sub-address %d) does not find output %d of tx %s with amount %v", so.sub, j, utx.Hash().Hex(), so.amt)
				}
				vstat.Label(fmt.Sprintf("owner_sub%d", so.sub))
			}
			gi += uint64(n)
		}
		_ = txs

		// (2) authorisation binding
		var victim *types.UTXOTransaction
		isSpend := rapid.IntRange(0, 3).Draw(t, "victimkind") != 0
		if isSpend {
			for tries := 0; tries < 20 && victim == nil; tries++ {
				if g := s.GenUSpend(t, nil); g != nil {
					victim = g.Tx.(*types.UTXOTransaction)
				}
			}
		} else if g := s.GenA2U(t); g != nil {
			victim = g.Tx.(*types.UTXOTransaction)
		}
		if victim == nil {
			t.Skip("no victim transaction")
		}
		if err := s.W.App.CheckTx(freshU(victim), true); err != nil {
			t.Skip("victim itself is not valid: " + err.Error()) // e.g. generated off-unit amounts
		}
		m := freshU(victim)
		ops := []string{"fee-up", "fee-down", "extra", "rkey", "addkeys", "token", "out-otaddr", "out-remark", "aout-to", "aout-amount", "in-keyoffset", "in-keyimage", "acct-sig", "ain-nonce",
			"sig-drop-last", "sig-drop-last", "sig-drop-all", "sig-flip", "sig-swap", "sig-dup-first"}
		op := rapid.SampledFrom(ops).Draw(t, "mop")
		applied := false
		attackerKey := lktypes.Key(world.NewWallet(777, 0).Keys.Addr.SpendPublicKey)
		switch op {
		case "fee-up":
			m.Fee = new(big.Int).Add(m.Fee, big.NewInt(types.ParGasPrice))
			applied = true
		case "fee-down":
			if m.Fee.Cmp(big.NewInt(types.ParGasPrice)) >= 0 {
				m.Fee = new(big.Int).Sub(m.Fee, big.NewInt(types.ParGasPrice))
				applied = true
			}
		case "extra":
			m.Extra = append(append([]byte(nil), m.Extra...), byte(rapid.IntRange(0, 255).Draw(t, "xb")))
			applied = true
		case "rkey":
			m.RKey = world.NewWallet(778, 0).Keys.Addr.ViewPublicKey
			applied = true
		case "addkeys":
			m.AddKeys = append(m.AddKeys, world.NewWallet(779, 0).Keys.Addr.ViewPublicKey)
			applied = true
		case "token":
			m.TokenID = common.BytesToAddress([]byte("other-token"))
			applied = true
		case "out-otaddr", "out-remark":
			for _, o := range m.Outputs {
				if uo, ok := o.(*types.UTXOOutput); ok && !applied {
					if op == "out-otaddr" {
						uo.OTAddr = attackerKey // redirect the output to a key the attacker owns
					} else {
						uo.Remark[rapid.IntRange(0, 31).Draw(t, "rb")] ^= 1
					}
					applied = true
				}
			}
		case "aout-to", "aout-amount":
			for _, o := range m.Outputs {
				if ao, ok := o.(*types.AccountOutput); ok && !applied {
					if op == "aout-to" {
						ao.To = common.BytesToAddress([]byte("attacker-account")) // an address no generated output goes to
					} else {
						ao.Amount = new(big.Int).Add(ao.Amount, world.UTXOUnit)
					}
					applied = true
				}
			}
		case "in-keyoffset", "in-keyimage":
			for _, in := range m.Inputs {
				if ui, ok := in.(*types.UTXOInput); ok && !applied {
					if op == "in-keyoffset" {
						// point the ring at another existing output
						if ui.KeyOffset[0]+1 < uint64(len(s.Outs[common.EmptyAddress])) && len(ui.KeyOffset) == 1 {
							ui.KeyOffset[0]++
							applied = true
						}
					} else {
						// another valid key image (of a different output of the same wallet set)
						for _, w := range s.Wallets {
							for _, o := range w.Owned {
								if o.KeyImage != ui.KeyImage && !applied {
									ui.KeyImage = o.KeyImage
									applied = true
								}
							}
						}
					}
				}
			}
		case "sig-drop-last", "sig-drop-all", "sig-flip", "sig-swap", "sig-dup-first":
			// the spend authorisations themselves: one ring signature per input (ring size 1: P.Ss) resp. one MLSAG per input (P.MGs).
			// They are not part of the transaction hash, so the mutant keeps the victim's hash.
			// (Both arrays have one slot per input, the one the ring size does not use holds placeholders: only the used one is touched.)
			p := &m.RCTSig.P
			short := ringOf(victim) == 1
			n := len(p.MGs)
			if short {
				n = len(p.Ss)
			}
			switch {
			case n == 0:
			case op == "sig-drop-last":
				if short {
					p.Ss = p.Ss[:len(p.Ss)-1]
				} else {
					p.MGs = p.MGs[:len(p.MGs)-1]
				}
				applied = true
			case op == "sig-drop-all":
				p.Ss, p.MGs = nil, nil
				applied = true
			case op == "sig-flip":
				i := rapid.IntRange(0, n-1).Draw(t, "sigidx")
				b := rapid.IntRange(0, 31).Draw(t, "sigbyte")
				if short {
					if rapid.Bool().Draw(t, "sigpart") {
						p.Ss[i].C[b] ^= 1
					} else {
						p.Ss[i].R[b] ^= 1
					}
				} else if rapid.Bool().Draw(t, "sigpart") || len(p.MGs[i].Ss) == 0 || len(p.MGs[i].Ss[0]) == 0 {
					p.MGs[i].Cc[b] ^= 1
				} else {
					p.MGs[i].Ss[0][0][b] ^= 1
				}
				applied = true
			case n >= 2 && op == "sig-swap":
				if short {
					p.Ss[0], p.Ss[1] = p.Ss[1], p.Ss[0]
				} else {
					p.MGs[0], p.MGs[1] = p.MGs[1], p.MGs[0]
				}
				applied = true
			case n >= 2 && op == "sig-dup-first":
				if short {
					p.Ss[n-1] = p.Ss[0]
				} else {
					p.MGs[n-1] = p.MGs[0]
				}
				applied = true
			}
		case "acct-sig", "ain-nonce":
			for _, in := range m.Inputs {
				if ai, ok := in.(*types.AccountInput); ok && !applied {
					if op == "ain-nonce" {
						ai.Nonce++
					} else {
						// a valid signature by ANOTHER key over the same fields
						m.Sign(types.GlobalSTDSigner, world.DetAcct(999).Key)
					}
					applied = true
				}
			}
		}
		if !applied {
			t.Skip("mutation not applicable to this transaction shape")
		}
		m = freshU(m)
		mb, _ := ser.EncodeToBytes(m)
		vb, _ := ser.EncodeToBytes(freshU(victim))
		if bytes.Equal(mb, vb) {
			t.Skip("mutation left the transaction unchanged")
		}
		label := fmt.Sprintf("%s|spend=%v|ring=%d", op, isSpend, ringOf(victim))
		vstat.Label("auth_" + op)
		vstat.NonTrivial(label + "|" + victim.Hash().Hex())
		basic := s.W.App.CheckTx(m, true)
		vicFrom, _ := victim.From()
		mutFrom, _ := m.From()
		if basic == nil {
			// Accepted by the basic check.  For a spend there is no account sender: the authorisation IS the ring signature, so
			// acceptance is a forgery.  For account->confidential the account signature decides who pays: acceptance is fine
			// only if the recovered (charged) account is no longer the victim's.
			if isSpend || mutFrom == vicFrom {
				acc, note := s.InjectAccepted(types.Txs{freshU(m)})
				vstat.Violation(t, P, "utxo:authorisation-survives:"+op, "after %q the confidential transaction (spend=%v, ring size %d) still passes the basic check (charged account %s, was %s); validator accepts block: %v (%s)", op, isSpend, ringOf(victim), mutFrom.Hex(), vicFrom.Hex(), acc, note)
			} else {
				vstat.Label("different_sender_recovered")
			}
		}
		if vstat.WantSample() {
			vstat.Sample(map[string]interface{}{"op": op, "victim_is_spend": isSpend, "ring": ringOf(victim), "basic_check": fmt.Sprint(basic)})
		}
	})
}

func ringOf(tx *types.UTXOTransaction) int {
	for _, in := range tx.Inputs {
		if ui, ok := in.(*types.UTXOInput); ok {
			return len(ui.KeyOffset)
		}
	}
	return 0
}
