package c08

// Contract upgrades are authorised twice: the configured multi-signers must reach the minimum power, AND the account named as
// sender (the one whose nonce is used up and who is recorded as the caller) must itself have signed the same fields.  Generated:
// the signer set, who is named as sender (a configured signer, a funded stranger, an address nobody has a key for - the zero
// address among them), who signs, in which order, and a field changed after signing.  Oracle from the generator's books:
// accepted iff a signature over the final fields recovers to the sender and the distinct configured signers with such a
// signature reach the minimum power.

import (
	"fmt"
	"testing"

	"github.com/lianxiangcloud/linkchain/libs/common"
	"github.com/lianxiangcloud/linkchain/libs/ser"
	"github.com/lianxiangcloud/linkchain/types"
	"pgregory.net/rapid"

	"verifharness/vstat"
	"verifharness/world"
)

func TestUpgradeSenderBinding(t *testing.T) {
	rapid.Check(t, func(t *rapid.T) {
		vstat.Eval()
		pool := []world.Acct{world.DetAcct(700), world.DetAcct(701), world.DetAcct(702), world.DetAcct(703), world.DetAcct(704)}
		nset := rapid.IntRange(1, 3).Draw(t, "nsigners")
		info := &types.SignersInfo{}
		power := map[common.Address]int32{}
		var total int32
		for i := 0; i < nset; i++ {
			p := int32(rapid.IntRange(1, 3).Draw(t, "power"))
			info.Signers = append(info.Signers, &types.SignerEntry{Power: p, Addr: pool[i].Addr})
			power[pool[i].Addr] = p
			total += p
		}
		info.MinSignerPower = int32(rapid.IntRange(1, int(total)+1).Draw(t, "minpower"))
		// the sender
		var from common.Address
		fromKind := rapid.SampledFrom([]string{"signer", "signer", "stranger-with-key", "zero-address", "no-key-address"}).Draw(t, "sender")
		switch fromKind {
		case "signer":
			from = pool[rapid.IntRange(0, nset-1).Draw(t, "which")].Addr
		case "stranger-with-key":
			from = pool[4].Addr
		case "zero-address":
			from = common.EmptyAddress
		default:
			from = common.BytesToAddress([]byte("an address without a key"))
		}
		// who signs, in which order
		var signers []world.Acct
		for _, a := range rapid.Permutation(pool).Draw(t, "order") {
			if rapid.Bool().Draw(t, "signs") {
				signers = append(signers, a)
			}
		}
		tx := world.UpgradeTxBy(from, common.BytesToAddress([]byte("upgraded contract")), uint64(rapid.IntRange(0, 5).Draw(t, "nonce")), []byte("new code"), signers)
		// a field changed after signing: nobody has signed what is sent
		changed := rapid.SampledFrom([]string{"", "", "", "payload", "nonce", "recipient", "sender"}).Draw(t, "changed")
		switch changed {
		case "payload":
			tx.Payload = append(tx.Payload, 1)
		case "nonce":
			tx.AccountNonce++
		case "recipient":
			tx.Recipient[3] ^= 1
		case "sender":
			tx.FromAddr = pool[3].Addr // (pool[3] may well have signed - but not these fields)
			from = tx.FromAddr
		}
		// over the wire
		bz, err := ser.EncodeToBytesWithType(types.Tx(tx))
		if err != nil {
			t.Fatalf("encode: %v", err)
		}
		var back types.Tx
		if err := ser.DecodeBytesWithType(bz, &back); err != nil {
			t.Fatalf("decode: %v", err)
		}
		got := back.(*types.ContractUpgradeTx).VerifySign(info)
		// the books
		want := changed == "" && len(signers) <= nset+1
		senderSigned := false
		var have int32
		for _, a := range signers {
			if a.Addr == from {
				senderSigned = true
			}
			have += power[a.Addr]
		}
		want = want && senderSigned && have >= info.MinSignerPower
		desc := fmt.Sprintf("signer set %v (minimum %d), sender %s (%s), signed by %d accounts (sender among them: %v, configured power %d), field changed after signing: %q",
			func() (s []string) {
				for _, e := range info.Signers {
					s = append(s, fmt.Sprintf("%s:%d", e.Addr.Hex()[:8], e.Power))
				}
				return
			}(), info.MinSignerPower, from.Hex()[:10], fromKind, len(signers), senderSigned, have, changed)
		vstat.Label("upgrade_sender_" + fromKind)
		if !senderSigned && have >= info.MinSignerPower && changed == "" {
			vstat.Label("upgrade_quorum_without_sender_signature")
			vstat.NonTrivial(desc)
		}
		if got == nil && !want {
			vstat.Violation(t, P, "upgrade:accepted-without-sender-signature-or-quorum", "a contract upgrade is accepted although the books say it is not authorised: %s", desc)
			return
		}
		if got != nil && want && len(signers) <= nset+1 {
			// the other direction is a control: a fully authorised upgrade must pass, else the generator tests nothing
			vstat.Violation(t, P, "upgrade:authorised-upgrade-refused", "a fully authorised contract upgrade is refused (%v): %s", got, desc)
		}
	})
}
