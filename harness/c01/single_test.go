package c01

// The voting discipline is a LOCAL obligation: whatever the rest of the network does — even if every other validator
// misbehaves — a correct validator signs at most one prevote and one precommit per round, precommits a block only after
// admitting > 2/3 prevotes for it in that round, does not prevote against its lock without a later proof-of-lock and
// gives up a lock only for such a proof.  So one REAL ConsensusState is driven here against puppet validators whose keys
// the harness holds: it can produce polkas, partial polkas, commits, equivocations and proposals (with or without a
// proof-of-lock round) in ANY round near the node's own, in any order, which reaches deep multi-round lock histories in a
// few dozen steps instead of hoping that several real nodes drift there.

import (
	"fmt"
	"strings"
	"testing"

	"github.com/lianxiangcloud/linkchain/consensus"
	"github.com/lianxiangcloud/linkchain/libs/common"
	"github.com/lianxiangcloud/linkchain/types"
	"pgregory.net/rapid"

	"verifharness/consim"
	"verifharness/vstat"
)

func runSingle(t *rapid.T) {
	vstat.Eval()
	nv := rapid.IntRange(4, 6).Draw(t, "nvals")
	powers := genPowers(t, nv)
	vals := make([]*consim.ValKey, nv)
	puppets := map[int]bool{}
	for i := range vals {
		vals[i] = consim.DetVal(i, powers[i])
		if i > 0 {
			puppets[i] = true
		}
	}
	n := consim.NewNet(vals, puppets, rapid.Bool().Draw(t, "skiptimeoutcommit"))
	defer n.Close()
	x, err := n.AddNode(0)
	if err != nil {
		t.Fatalf("node: %v", err)
	}
	c := &checker{n: n, t: t, seenEv: map[int]int{}}
	n.Start(x)
	pupIdx := consim.SortedKeys(puppets)
	steps := rapid.IntRange(20, 250).Draw(t, "steps")
	// block ids the puppets can vote for: proposals made at this height (by the node or by puppets), plus unknown ones
	type known struct {
		h  uint64
		id types.BlockID
	}
	var ids []known
	noteIDs := func(from int) {
		for k := from; k < len(n.Pool); k++ {
			if pm, ok := n.Pool[k].Msg.(*consensus.ProposalMessage); ok && pm.Proposal != nil {
				// the block hash is only known once the parts are decoded; the node's own prevote/precommit will carry it
				_ = pm
			}
			if vm, ok := n.Pool[k].Msg.(*consensus.VoteMessage); ok && vm.Vote != nil && !vm.Vote.BlockID.IsZero() {
				ids = append(ids, known{vm.Vote.Height, vm.Vote.BlockID})
			}
		}
	}
	pickID := func(h uint64, label string) types.BlockID {
		var cands []types.BlockID
		for _, k := range ids {
			if k.h == h {
				dup := false
				for _, c := range cands {
					if c.Equals(k.id) {
						dup = true
					}
				}
				if !dup {
					cands = append(cands, k.id)
				}
			}
		}
		rs := x.CS.GetRoundState()
		var current *types.BlockID
		if rs.ProposalBlock != nil && rs.ProposalBlockParts != nil {
			current = &types.BlockID{Hash: rs.ProposalBlock.Hash(), PartsHeader: rs.ProposalBlockParts.Header()}
			cands = append(cands, *current)
		}
		switch k := rapid.IntRange(0, 9).Draw(t, label+"_kind"); {
		case k == 0 || k == 1:
			return types.BlockID{}
		case k == 2:
			return types.BlockID{Hash: common.BytesToHash([]byte(fmt.Sprintf("unknown-%d", rapid.IntRange(0, 2).Draw(t, label+"_u")))), PartsHeader: types.PartSetHeader{Total: 1, Hash: []byte("u")}}
		case k <= 6 && current != nil:
			return *current // the block the node holds: votes for it are what makes it lock and commit
		case len(cands) == 0:
			return types.BlockID{}
		default:
			return cands[rapid.IntRange(0, len(cands)-1).Draw(t, label+"_c")]
		}
	}
	genRound := func(cur int, label string) int {
		r := cur + rapid.SampledFrom([]int{0, 0, 0, -1, -1, -2, -3, 1, 1, 2}).Draw(t, label)
		if r < 0 {
			r = 0
		}
		return r
	}
	send := func(b int, m consensus.ConsensusMessage) {
		k := n.Inject(b, m)
		n.Deliver(x, k)
	}
	poolSeen := 0
	bursts, staleBursts, proposals, polProposals := 0, 0, 0, 0
	for s := 0; s < steps && !c.violated && x.Crashed == nil; s++ {
		noteIDs(poolSeen)
		poolSeen = len(n.Pool)
		rs := x.CS.GetRoundState()
		switch act := rapid.IntRange(0, 99).Draw(t, "act"); {
		case act < 30: // one puppet vote
			b := pupIdx[rapid.IntRange(0, len(pupIdx)-1).Draw(t, "puppet")]
			typ := byte(types.VoteTypePrevote)
			if rapid.Bool().Draw(t, "precommit") {
				typ = types.VoteTypePrecommit
			}
			r := genRound(rs.Round, "vround")
			id := pickID(rs.Height, "vid")
			v := n.SignedVote(b, typ, rs.Height, r, id)
			n.Logf("step %d: puppet %d %s", s, b, consim.Describe(&consensus.VoteMessage{Vote: v}))
			send(b, &consensus.VoteMessage{Vote: v})
		case act < 62: // a burst: a generated subset of the puppets casts the same vote in one round (a polka, a commit, or almost)
			typ := byte(types.VoteTypePrevote)
			if rapid.IntRange(0, 2).Draw(t, "burstprecommit") == 0 {
				typ = types.VoteTypePrecommit
			}
			r := genRound(rs.Round, "bround")
			id := pickID(rs.Height, "bid")
			bursts++
			if r < rs.LockedRound || (rs.LockedBlock != nil && r <= rs.LockedRound) {
				staleBursts++
			}
			skip := rapid.IntRange(0, 3).Draw(t, "burstskip") // 0: everybody; otherwise leave some out
			n.Logf("step %d: burst of %s h=%d r=%d for %s", s, tname(typ), rs.Height, r, short(idOf(&types.Vote{BlockID: id})))
			for _, b := range pupIdx {
				if skip != 0 && rapid.IntRange(0, 3).Draw(t, "leaveout") == 0 {
					continue
				}
				send(b, &consensus.VoteMessage{Vote: n.SignedVote(b, typ, rs.Height, r, id)})
				if x.Crashed != nil {
					break
				}
			}
		case act < 80: // timeouts
			sch := x.Ticker.Scheduled()
			if len(sch) == 0 {
				break
			}
			if rapid.IntRange(0, 3).Draw(t, "stale") == 0 {
				j := rapid.IntRange(0, len(sch)-1).Draw(t, "timeout")
				n.FireTimeout(x, j)
				n.Logf("step %d: fire timeout #%d (h=%d r=%d step=%d)", s, j, sch[j].Height, sch[j].Round, sch[j].Step)
			} else {
				fireNewest(n, x, s)
			}
		default: // a proposal by the round's proposer if that is a puppet (optionally naming a proof-of-lock round)
			prop := rs.Validators.GetProposer()
			for _, b := range pupIdx {
				if string(vals[b].Addr) != string(prop.Address) {
					continue
				}
				polR, polID := -1, types.BlockID{}
				if rs.Round > 0 && rapid.Bool().Draw(t, "withpol") {
					polR = rapid.IntRange(0, rs.Round-1).Draw(t, "polround")
					polID = pickID(rs.Height, "polid")
					polProposals++
				}
				msgs, _ := n.ByzProposal(b, x, rs.Height, rs.Round, polR, polID, uint64(s), nil)
				n.Logf("step %d: puppet proposer %d proposes for h=%d r=%d (pol round %d)", s, b, rs.Height, rs.Round, polR)
				for _, m := range msgs {
					send(b, m)
					if x.Crashed != nil {
						break
					}
				}
				proposals++
			}
		}
		c.check()
	}
	if c.violated {
		return
	}
	if x.Crashed != nil {
		// the puppets only send validly signed, well-formed messages: a panic is C16's business, the discipline was checked up to here
		vstat.Label("single_node_crashed")
		vstat.Note("single-node schedule: node panicked: " + fmt.Sprint(x.Crashed))
	}
	// classification
	locks, lateLocks, releases, prevotes, commits := 0, 0, 0, 0, len(x.Script.Commits)
	lockID := ""
	for _, e := range x.Events {
		if e.Kind != "sign" || e.Vote == nil {
			continue
		}
		if e.Vote.Type == types.VoteTypePrevote {
			prevotes++
			if lockID != "" && idOf(e.Vote) != lockID {
				releases++
			}
		}
		if e.Vote.Type == types.VoteTypePrecommit && !e.Vote.BlockID.IsZero() {
			locks++
			lockID = idOf(e.Vote)
			if e.Vote.Round >= 1 {
				lateLocks++
			}
		}
	}
	lab := func(name string, cond bool) {
		if cond {
			vstat.Label(name)
		}
	}
	lab("single_locked", locks > 0)
	lab("single_locked_in_round_ge_1", lateLocks > 0)
	lab("single_prevoted_other_than_lock_after_polka", releases > 0)
	lab("single_burst_in_round_not_after_lock", staleBursts > 0)
	lab("single_committed", commits > 0)
	lab("single_puppet_proposal", proposals > 0)
	lab("single_puppet_proposal_with_pol", polProposals > 0)
	if locks > 0 && prevotes > 1 {
		vstat.NonTrivial("single|" + strings.Join(n.Trace, "|"))
	}
}

func TestDisciplineSingleNode(t *testing.T) {
	rapid.Check(t, runSingle)
}
