// C01 — consensus agreement and voting discipline.
package c01

import (
	"fmt"
	"strings"
	"testing"

	"github.com/lianxiangcloud/linkchain/consensus"
	"github.com/lianxiangcloud/linkchain/libs/common"
	"github.com/lianxiangcloud/linkchain/types"
	"pgregory.net/rapid"

	"verifharness/consim"
	"verifharness/vstat"
)

const P = "C01"

func TestMain(m *testing.M) {
	consim.Init()
	vstat.Main(m)
}

type hr struct {
	h uint64
	r int
}

type checker struct {
	n        *consim.Net
	t        *rapid.T
	seenEv   map[int]int // per node: events already checked
	violated bool
	locks    map[int]lockRec // per node: the lock its RoundState showed after the previous input
}

type lockRec struct {
	h  uint64
	r  int
	id string
}

func (c *checker) fail(key, f string, a ...interface{}) {
	c.violated = true
	vstat.Violation(c.t, P, key, "%s\ntrace:\n%s", fmt.Sprintf(f, a...), strings.Join(c.n.Trace, "\n"))
}

func idOf(v *types.Vote) string {
	if v.BlockID.IsZero() {
		return "nil"
	}
	return v.BlockID.Key()
}

// tally returns the voting power of distinct validators with a validly signed vote of (typ, h, r) for id among events[:upto] of kind ack.
func (c *checker) tally(ev []consim.Event, upto int, typ byte, h uint64, r int, id string) int64 {
	seen := map[int]bool{}
	for i := 0; i < upto; i++ {
		e := ev[i]
		if e.Kind != "ack" || e.Vote == nil {
			continue
		}
		v := e.Vote
		if v.Type != typ || v.Height != h || v.Round != r || idOf(v) != id {
			continue
		}
		if !c.n.ValidVote(v) {
			continue
		}
		seen[v.ValidatorIndex] = true
	}
	return c.n.PowerOf(seen)
}

// polkaForOther: was there, among events[:upto], a round r' in (lo, hi] with > 2/3 prevotes for a value other than notID?
func (c *checker) polkaForOther(ev []consim.Event, upto int, h uint64, lo, hi int, notID string) bool {
	cands := map[string]map[int]bool{} // "round|id"
	for i := 0; i < upto; i++ {
		e := ev[i]
		if e.Kind != "ack" || e.Vote == nil {
			continue
		}
		v := e.Vote
		if v.Type != types.VoteTypePrevote || v.Height != h || v.Round <= lo || v.Round > hi || idOf(v) == notID || !c.n.ValidVote(v) {
			continue
		}
		k := fmt.Sprintf("%d|%s", v.Round, idOf(v))
		if cands[k] == nil {
			cands[k] = map[int]bool{}
		}
		cands[k][v.ValidatorIndex] = true
	}
	for _, set := range cands {
		if c.n.MoreThanTwoThirds(c.n.PowerOf(set)) {
			return true
		}
	}
	return false
}

// check applies the invariants to everything that happened since the last call.
func (c *checker) check() {
	// (1) agreement
	for h, m := range c.n.Commits() {
		if len(m) > 1 {
			var parts []string
			for hash, nodes := range m {
				parts = append(parts, fmt.Sprintf("%s by nodes %v", hash.Hex()[:10], nodes))
			}
			c.fail("agreement:two-blocks-committed-at-one-height", "height %d: %s", h, strings.Join(parts, " ; "))
			return
		}
	}
	for _, nd := range c.n.Nodes {
		ev := nd.Events
		from := c.seenEv[nd.Idx]
		c.seenEv[nd.Idx] = len(ev)
		for i := from; i < len(ev); i++ {
			e := ev[i]
			if e.Kind != "sign" || e.Vote == nil {
				continue
			}
			v := e.Vote
			// (2) at most one distinct prevote / precommit per (h, r)
			for j := 0; j < i; j++ {
				o := ev[j]
				if o.Kind == "sign" && o.Vote != nil && o.Vote.Type == v.Type && o.Vote.Height == v.Height && o.Vote.Round == v.Round && idOf(o.Vote) != idOf(v) {
					c.fail("discipline:two-votes-in-one-round", "node %d signed two different %s at h=%d r=%d: %s and %s", nd.Idx, tname(v.Type), v.Height, v.Round, idOf(o.Vote)[:min(8, len(idOf(o.Vote)))], idOf(v)[:min(8, len(idOf(v)))])
					return
				}
			}
			if v.Type == types.VoteTypePrecommit && !v.BlockID.IsZero() {
				// (3) precommit for B only after > 2/3 prevotes for B in this round were admitted
				if p := c.tally(ev, i, types.VoteTypePrevote, v.Height, v.Round, idOf(v)); !c.n.MoreThanTwoThirds(p) {
					c.fail("discipline:precommit-without-polka", "node %d precommitted block %x at h=%d r=%d having admitted prevotes for it from only %d of %d voting power", nd.Idx, v.BlockID.Hash[:4], v.Height, v.Round, p, c.n.ValSet.TotalVotingPower())
					return
				}
			}
			if v.Type == types.VoteTypePrevote {
				// (4) no prevote against the own lock without a later proof-of-lock
				lockRound, lockID := -1, ""
				for j := 0; j < i; j++ {
					o := ev[j]
					if o.Kind == "sign" && o.Vote != nil && o.Vote.Type == types.VoteTypePrecommit && o.Vote.Height == v.Height && o.Vote.Round < v.Round && !o.Vote.BlockID.IsZero() && o.Vote.Round > lockRound {
						lockRound, lockID = o.Vote.Round, idOf(o.Vote)
					}
				}
				if lockRound >= 0 && idOf(v) != lockID {
					if !c.polkaForOther(ev, i, v.Height, lockRound, v.Round, lockID) {
						c.fail("discipline:prevote-against-lock", "node %d precommitted (locked) a block at h=%d r=%d and prevoted %s at r=%d without having admitted > 2/3 prevotes for another value in a round in (%d, %d]", nd.Idx, v.Height, lockRound, short(idOf(v)), v.Round, lockRound, v.Round)
						return
					}
				}
			}
		}
	}
	// (5) RoundState after every input: within a height a lock is only given up (or replaced by a lock on another block) once
	// the node has admitted > 2/3 prevotes for another value in a round after the lock round and not after its current round
	for _, nd := range c.n.Nodes {
		if nd.Crashed != nil {
			continue
		}
		rs := nd.CS.GetRoundState()
		cur := lockRec{h: rs.Height, r: rs.LockedRound}
		if rs.LockedBlock != nil && rs.LockedBlockParts != nil {
			cur.id = types.BlockID{Hash: rs.LockedBlock.Hash(), PartsHeader: rs.LockedBlockParts.Header()}.Key()
		}
		if c.locks == nil {
			c.locks = map[int]lockRec{}
		}
		prev, had := c.locks[nd.Idx]
		c.locks[nd.Idx] = cur
		if had && prev.id != "" && prev.h == cur.h && cur.id != prev.id {
			if !c.polkaForOther(nd.Events, len(nd.Events), cur.h, prev.r, rs.Round, prev.id) {
				c.fail("discipline:lock-released-without-later-polka", "node %d was locked on a block since h=%d r=%d and is no longer (now in round %d, locked round %d) without having admitted > 2/3 prevotes for another value in a round in (%d, %d]", nd.Idx, prev.h, prev.r, rs.Round, rs.LockedRound, prev.r, rs.Round)
				return
			}
		}
	}
	// commits are justified: the seen commit holds > 2/3 valid precommits for exactly that block in one round
	for _, nd := range c.n.Nodes {
		if nd.Script == nil {
			continue
		}
		for _, cr := range nd.Script.Commits {
			seen := nd.Script.LoadSeenCommit(cr.Height)
			if seen == nil {
				continue
			}
			set := map[int]bool{}
			for _, pc := range seen.Precommits {
				if pc == nil || pc.Type != types.VoteTypePrecommit || pc.Height != cr.Height || pc.Round != cr.Round || pc.BlockID.Hash != cr.Hash || !c.n.ValidVote(pc) {
					continue
				}
				set[pc.ValidatorIndex] = true
			}
			if !c.n.MoreThanTwoThirds(c.n.PowerOf(set)) {
				c.fail("commit:without-two-thirds-precommits", "node %d committed block %s at height %d with valid precommits of only %d of %d power", nd.Idx, cr.Hash.Hex()[:10], cr.Height, c.n.PowerOf(set), c.n.ValSet.TotalVotingPower())
				return
			}
		}
	}
}

func short(s string) string {
	if len(s) > 8 {
		return fmt.Sprintf("%x", s[:4])
	}
	return s
}

func tname(t byte) string {
	if t == types.VoteTypePrecommit {
		return "precommits"
	}
	return "prevotes"
}

func genPowers(t *rapid.T, n int) []int64 {
	p := make([]int64, n)
	switch rapid.IntRange(0, 3).Draw(t, "powershape") {
	case 0:
		for i := range p {
			p[i] = 1
		}
	case 1:
		for i := range p {
			p[i] = int64(rapid.IntRange(1, 10).Draw(t, fmt.Sprintf("p%d", i)))
		}
	case 2: // one heavy validator just under one third, the rest equal
		for i := range p {
			p[i] = 10
		}
		p[0] = int64(10*(n-1))/2 - 1
		if p[0] < 1 {
			p[0] = 1
		}
	default:
		for i := range p {
			p[i] = int64(rapid.IntRange(1, 1000).Draw(t, fmt.Sprintf("p%d", i)))
		}
	}
	return p
}

func runSchedule(t *rapid.T) {
	vstat.Eval()
	nv := rapid.IntRange(4, 7).Draw(t, "nvals")
	powers := genPowers(t, nv)
	var total int64
	vals := make([]*consim.ValKey, nv)
	for i := range vals {
		vals[i] = consim.DetVal(i, powers[i])
		total += powers[i]
	}
	// Byzantine subset with strictly less than one third of the power
	byz := map[int]bool{}
	var bp int64
	for i := 0; i < nv; i++ {
		if rapid.IntRange(0, 2).Draw(t, fmt.Sprintf("byz%d", i)) == 0 && (bp+powers[i])*3 < total {
			byz[i] = true
			bp += powers[i]
		}
	}
	n := consim.NewNet(vals, byz, rapid.Bool().Draw(t, "skiptimeoutcommit"))
	defer n.Close()
	for i := 0; i < nv; i++ {
		if !byz[i] {
			if _, err := n.AddNode(i); err != nil {
				t.Fatalf("node: %v", err)
			}
		}
	}
	c := &checker{n: n, t: t, seenEv: map[int]int{}}
	for _, nd := range n.Nodes {
		n.Start(nd)
	}
	byzIdx := consim.SortedKeys(byz)
	steps := rapid.IntRange(60, 1500).Draw(t, "steps")
	maxHeights := uint64(rapid.IntRange(1, 3).Draw(t, "heights"))
	staleFired, equivs, skips, dups, drops, byzProps, relabels := 0, 0, 0, 0, 0, 0, 0
	seenIDs := []types.BlockID{{}}
	notePool := func(from int) {
		for k := from; k < len(n.Pool); k++ {
			switch m := n.Pool[k].Msg.(type) {
			case *consensus.VoteMessage:
				if m.Vote != nil && !m.Vote.BlockID.IsZero() {
					seenIDs = append(seenIDs, m.Vote.BlockID)
				}
			}
		}
	}
	poolSeen := 0
	// Targeted delay: a node can have a whole class of messages (the proposal, the prevotes or the precommits of one round)
	// held back until a later, generated moment.  This is what produces locks in rounds >= 1, polkas that complete after the
	// node has moved on, and proposals that arrive after the votes for them.
	classOf := func(m consensus.ConsensusMessage) string {
		switch v := m.(type) {
		case *consensus.VoteMessage:
			if v.Vote != nil {
				return fmt.Sprintf("votes h=%d r=%d type=%d", v.Vote.Height, v.Vote.Round, v.Vote.Type)
			}
		case *consensus.ProposalMessage:
			if v.Proposal != nil {
				return fmt.Sprintf("proposal h=%d r=%d", v.Proposal.Height, v.Proposal.Round)
			}
		case *consensus.BlockPartMessage:
			return fmt.Sprintf("proposal h=%d r=%d", v.Height, v.Round)
		}
		return ""
	}
	held := map[int]map[string]bool{}
	holds, releases := 0, 0
	// some cases start with a generated delay plan: whole classes are held back from generated subsets of the nodes from
	// the beginning (a starved round, a split vote), and the release actions below let them through at generated moments
	if rapid.IntRange(0, 2).Draw(t, "delayplan") != 0 {
		// every class gets its own density, so a class is typically withheld from nobody, from a few nodes, or from (almost)
		// everybody: a round whose proposal reaches nobody ends in a nil polka, a round whose precommits reach nobody ends
		// with locks but without a commit, and the votes of such rounds arrive in later rounds
		for h := 1; h <= 2; h++ {
			for r := 0; r <= 2; r++ {
				for _, cl := range []string{fmt.Sprintf("proposal h=%d r=%d", h, r), fmt.Sprintf("votes h=%d r=%d type=1", h, r), fmt.Sprintf("votes h=%d r=%d type=2", h, r)} {
					density := rapid.SampledFrom([]int{0, 0, 0, 25, 60, 100}).Draw(t, "density")
					if density == 0 {
						continue
					}
					for _, nd := range n.Nodes {
						if rapid.IntRange(0, 99).Draw(t, "hold") < density {
							if held[nd.Idx] == nil {
								held[nd.Idx] = map[string]bool{}
							}
							held[nd.Idx][cl] = true
							holds++
						}
					}
				}
			}
		}
		vstat.Label("delay_plan")
	}
	for s := 0; s < steps && !c.violated; s++ {
		notePool(poolSeen)
		poolSeen = len(n.Pool)
		live := []*consim.Node{}
		done := true
		for _, nd := range n.Nodes {
			if nd.Crashed == nil {
				live = append(live, nd)
				if nd.Script.Height() < maxHeights {
					done = false
				}
			}
		}
		if len(live) == 0 || done {
			break
		}
		nd := live[rapid.IntRange(0, len(live)-1).Draw(t, "node")]
		act := rapid.IntRange(0, 99).Draw(t, "act")
		switch {
		case act < 57: // fair: the oldest message this node has not seen and that is not held back for it
			k := -1
			for i := range n.Pool {
				if !nd.Delivered[i] && !held[nd.Idx][classOf(n.Pool[i].Msg)] {
					k = i
					break
				}
			}
			if k >= 0 {
				n.Deliver(nd, k)
				n.Logf("step %d: deliver #%d (%s, from %d) to node %d", s, k, consim.Describe(n.Pool[k].Msg), n.Pool[k].From, nd.Idx)
			} else {
				fireNewest(n, nd, s)
			}
		case act < 62: // hold back / release a class of messages for this node
			hs := consim.SortedStrings(held[nd.Idx])
			if len(hs) > 0 && rapid.IntRange(0, 2).Draw(t, "release") == 0 {
				cl := hs[rapid.IntRange(0, len(hs)-1).Draw(t, "heldclass")]
				delete(held[nd.Idx], cl)
				releases++
				n.Logf("step %d: node %d now receives the held-back %s", s, nd.Idx, cl)
				break
			}
			for i := range n.Pool {
				if cl := classOf(n.Pool[i].Msg); !nd.Delivered[i] && cl != "" && !held[nd.Idx][cl] {
					if held[nd.Idx] == nil {
						held[nd.Idx] = map[string]bool{}
					}
					held[nd.Idx][cl] = true
					holds++
					n.Logf("step %d: %s held back for node %d", s, cl, nd.Idx)
					break
				}
			}
		case act < 72: // any message, possibly again (duplication / replay of old messages) or out of order
			if len(n.Pool) > 0 {
				k := rapid.IntRange(0, len(n.Pool)-1).Draw(t, "msg")
				if nd.Delivered[k] {
					dups++
				}
				n.Deliver(nd, k)
				n.Logf("step %d: deliver(any) #%d (%s) to node %d", s, k, consim.Describe(n.Pool[k].Msg), nd.Idx)
			}
		case act < 77: // loss
			for i := range n.Pool {
				if !nd.Delivered[i] {
					nd.Delivered[i] = true
					drops++
					n.Logf("step %d: drop #%d for node %d", s, i, nd.Idx)
					break
				}
			}
		case act < 87: // timeouts: usually the newest pending one, sometimes any (stale, repeated)
			sch := nd.Ticker.Scheduled()
			if len(sch) == 0 {
				break
			}
			if rapid.IntRange(0, 3).Draw(t, "stale") == 0 {
				j := rapid.IntRange(0, len(sch)-1).Draw(t, "timeout")
				if j < len(sch)-1 || nd.Fired[j] {
					staleFired++
				}
				n.FireTimeout(nd, j)
				n.Logf("step %d: fire timeout #%d (h=%d r=%d step=%d) at node %d", s, j, sch[j].Height, sch[j].Round, sch[j].Step, nd.Idx)
			} else {
				fireNewest(n, nd, s)
			}
		case act < 95: // Byzantine vote: equivocation, votes for future rounds (round skipping), for unknown blocks
			if len(byzIdx) == 0 {
				break
			}
			b := byzIdx[rapid.IntRange(0, len(byzIdx)-1).Draw(t, "byzval")]
			rs := nd.CS.GetRoundState()
			typ := byte(types.VoteTypePrevote)
			if rapid.Bool().Draw(t, "precommit") {
				typ = types.VoteTypePrecommit
			}
			r := rs.Round + rapid.IntRange(-1, 2).Draw(t, "dround")
			if r < 0 {
				r = 0
			}
			if r > rs.Round {
				skips++
			}
			var id types.BlockID
			switch rapid.IntRange(0, 3).Draw(t, "idkind") {
			case 0:
			case 1:
				id = types.BlockID{Hash: common.BytesToHash([]byte(fmt.Sprintf("fresh-%d", s))), PartsHeader: types.PartSetHeader{Total: 1, Hash: []byte("x")}}
			default:
				id = seenIDs[rapid.IntRange(0, len(seenIDs)-1).Draw(t, "seenid")]
			}
			v := n.SignedVote(b, typ, rs.Height, r, id)
			if rapid.IntRange(0, 3).Draw(t, "relabel") == 0 {
				// ... or it takes a vote SOMEBODY ELSE really signed and relabels it (a prevote offered as a precommit and the other
				// way round; the signature is the genuine one over the original content): nobody signed what it now says
				var cands []*types.Vote
				for _, e := range n.Pool {
					if vm, ok := e.Msg.(*consensus.VoteMessage); ok && !e.Byz && vm.Vote != nil && vm.Vote.Height == rs.Height && !vm.Vote.BlockID.IsZero() {
						cands = append(cands, vm.Vote)
					}
				}
				if len(cands) > 0 {
					cp := *cands[rapid.IntRange(0, len(cands)-1).Draw(t, "relabelled")]
					cp.Type = types.VoteTypePrevote + types.VoteTypePrecommit - cp.Type
					v = &cp
					relabels++
				}
			}
			k := n.Inject(b, &consensus.VoteMessage{Vote: v})
			equivs++
			n.Logf("step %d: byzantine validator %d signs %s", s, b, consim.Describe(n.Pool[k].Msg))
			// selective delivery: hand it to a generated subset right away, the rest may get it later (or never)
			for _, o := range live {
				if rapid.Bool().Draw(t, "sel") {
					n.Deliver(o, k)
				}
			}
		default: // Byzantine proposer: two conflicting signed proposals for a round it owns
			if len(byzIdx) == 0 {
				break
			}
			rs := nd.CS.GetRoundState()
			prop := rs.Validators.GetProposer()
			for _, b := range byzIdx {
				if string(vals[b].Addr) == string(prop.Address) {
					polR, polID := rs.Votes.POLInfo()
					if polR >= rs.Round {
						polR, polID = -1, types.BlockID{}
					}
					for variant := 0; variant < 2; variant++ {
						msgs, _ := n.ByzProposal(b, nd, rs.Height, rs.Round, polR, polID, uint64(s*2+variant), nil)
						for _, m := range msgs {
							n.Inject(b, m)
						}
					}
					byzProps++
					n.Logf("step %d: byzantine proposer %d signs two proposals for h=%d r=%d", s, b, rs.Height, rs.Round)
				}
			}
		}
		c.check()
	}
	if c.violated {
		return
	}
	// classification
	committed, laterRound, locks := 0, 0, 0
	for _, nd := range n.Nodes {
		for _, cr := range nd.Script.Commits {
			committed++
			if cr.Round > 0 {
				laterRound++
			}
		}
		// a lock that did not lead to a commit in the same round
		for _, e := range nd.Events {
			if e.Kind == "sign" && e.Vote != nil && e.Vote.Type == types.VoteTypePrecommit && !e.Vote.BlockID.IsZero() {
				hit := false
				for _, cr := range nd.Script.Commits {
					if cr.Height == e.Vote.Height && cr.Round == e.Vote.Round {
						hit = true
					}
				}
				if !hit {
					locks++
				}
			}
		}
	}
	// depth markers: a lock taken in a round >= 1, and a prevote of an EARLIER round admitted after such a lock (the situation
	// in which "unlock only on a later proof-of-lock" differs from "unlock on any polka")
	lateLock, staleAfterLock := 0, 0
	for _, nd := range n.Nodes {
		lockH, lockR := uint64(0), -1
		for _, e := range nd.Events {
			if e.Kind == "sign" && e.Vote != nil && e.Vote.Type == types.VoteTypePrecommit && !e.Vote.BlockID.IsZero() && e.Vote.Round >= 1 {
				lockH, lockR = e.Vote.Height, e.Vote.Round
				lateLock++
			}
			if e.Kind == "ack" && e.Vote != nil && e.Vote.Type == types.VoteTypePrevote && lockR >= 1 && e.Vote.Height == lockH && e.Vote.Round < lockR {
				staleAfterLock++
			}
		}
	}
	crashed := 0
	for _, nd := range n.Nodes {
		if nd.Crashed != nil {
			crashed++
		}
	}
	lab := func(name string, cond bool) {
		if cond {
			vstat.Label(name)
		}
	}
	lab("committed", committed > 0)
	lab("commit_in_later_round", laterRound > 0)
	lab("lock_without_commit_in_round", locks > 0)
	lab("byz_votes", equivs > 0)
	lab("relabelled_votes", relabels > 0)
	lab("byz_round_skip_votes", skips > 0)
	lab("byz_conflicting_proposals", byzProps > 0)
	lab("stale_timeout_fired", staleFired > 0)
	lab("duplicates", dups > 0)
	lab("drops", drops > 0)
	lab("lock_in_round_ge_1", lateLock > 0)
	lab("earlier_round_prevote_admitted_after_later_lock", staleAfterLock > 0)
	lab("class_held_back", holds > 0)
	lab("held_class_released_later", releases > 0)
	lab("correct_node_crashed", crashed > 0)
	vstat.Label(fmt.Sprintf("byz_%d_of_%d", len(byz), nv))
	if crashed > 0 {
		// a correct node that panics is treated as crashed here (safety must hold anyway); the panic itself is C16's business
		vstat.Note("a correct node panicked in a C01 schedule: " + fmt.Sprint(n.Nodes[0].Crashed))
	}
	if committed > 0 && (laterRound > 0 || locks > 0 || equivs > 0 || skips > 0 || staleFired > 0 || byzProps > 0 || holds > 0) {
		vstat.NonTrivial(strings.Join(n.Trace, "|"))
		if vstat.WantSample() {
			tr := n.Trace
			if len(tr) > 60 {
				tr = tr[:60]
			}
			vstat.Sample(map[string]interface{}{"validators": nv, "powers": powers, "byzantine": byzIdx, "trace_head": tr, "commits": committed})
		}
	}
}

func fireNewest(n *consim.Net, nd *consim.Node, s int) {
	sch := nd.Ticker.Scheduled()
	for j := len(sch) - 1; j >= 0; j-- {
		if !nd.Fired[j] {
			n.FireTimeout(nd, j)
			n.Logf("step %d: fire newest timeout #%d (h=%d r=%d step=%d) at node %d", s, j, sch[j].Height, sch[j].Round, sch[j].Step, nd.Idx)
			return
		}
	}
}

func TestAgreementSchedules(t *testing.T) {
	rapid.Check(t, runSchedule)
}
