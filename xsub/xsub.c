/*
 * xsub — functional substitute for linkchain's closed libxcrypto.a
 *
 * Implements exactly the C symbols that /repo/libs/cryptonote/xcrypto references,
 * on top of libsodium's ed25519 group arithmetic.  See /verif/DESIGN.md §0.
 *
 * Trusted for: group/scalar arithmetic, CryptoNote key derivation, key images,
 * plain ring signatures (ring size 1 is all the Go wrapper can pass safely),
 * MLSAG "simple" (2 rows), ECDH amount masking, Pedersen commitments, and a
 * TRANSPARENT range proof (the proof opens the commitments; sound + complete,
 * not hiding).  NOT wire compatible with Monero.
 */
#include <sodium.h>
#include <stdint.h>
#include <stdio.h>
#include <stdlib.h>
#include <string.h>
#include <pthread.h>

typedef unsigned char u8;

/* ------------------------------------------------------------------ keccak */

static const uint64_t KRC[24] = {
    0x0000000000000001ULL, 0x0000000000008082ULL, 0x800000000000808aULL, 0x8000000080008000ULL,
    0x000000000000808bULL, 0x0000000080000001ULL, 0x8000000080008081ULL, 0x8000000000008009ULL,
    0x000000000000008aULL, 0x0000000000000088ULL, 0x0000000080008009ULL, 0x000000008000000aULL,
    0x000000008000808bULL, 0x800000000000008bULL, 0x8000000000008089ULL, 0x8000000000008003ULL,
    0x8000000000008002ULL, 0x8000000000000080ULL, 0x000000000000800aULL, 0x800000008000000aULL,
    0x8000000080008081ULL, 0x8000000000008080ULL, 0x0000000080000001ULL, 0x8000000080008008ULL};
static const int KROT[24] = {1, 3, 6, 10, 15, 21, 28, 36, 45, 55, 2, 14, 27, 41, 56, 8, 25, 43, 62, 18, 39, 61, 20, 44};
static const int KPIL[24] = {10, 7, 11, 17, 18, 3, 5, 16, 8, 21, 24, 4, 15, 23, 19, 13, 12, 2, 20, 14, 22, 9, 6, 1};
#define ROL64(x, y) (((x) << (y)) | ((x) >> (64 - (y))))

static void keccakf(uint64_t st[25])
{
    uint64_t t, bc[5];
    for (int r = 0; r < 24; r++) {
        for (int i = 0; i < 5; i++) bc[i] = st[i] ^ st[i + 5] ^ st[i + 10] ^ st[i + 15] ^ st[i + 20];
        for (int i = 0; i < 5; i++) {
            t = bc[(i + 4) % 5] ^ ROL64(bc[(i + 1) % 5], 1);
            for (int j = 0; j < 25; j += 5) st[j + i] ^= t;
        }
        t = st[1];
        for (int i = 0; i < 24; i++) {
            int j = KPIL[i];
            bc[0] = st[j];
            st[j] = ROL64(t, KROT[i]);
            t = bc[0];
        }
        for (int j = 0; j < 25; j += 5) {
            for (int i = 0; i < 5; i++) bc[i] = st[j + i];
            for (int i = 0; i < 5; i++) st[j + i] ^= (~bc[(i + 1) % 5]) & bc[(i + 2) % 5];
        }
        st[0] ^= KRC[r];
    }
}

/* Keccak-256 with the original 0x01 padding (CryptoNote's cn_fast_hash). */
static void keccak256(const u8 *in, size_t inlen, u8 out[32])
{
    uint64_t st[25];
    u8 temp[144];
    const size_t rsiz = 136;
    memset(st, 0, sizeof st);
    for (; inlen >= rsiz; inlen -= rsiz, in += rsiz) {
        for (size_t i = 0; i < rsiz / 8; i++) {
            uint64_t w;
            memcpy(&w, in + 8 * i, 8);
            st[i] ^= w;
        }
        keccakf(st);
    }
    memset(temp, 0, sizeof temp);
    if (inlen) memcpy(temp, in, inlen);
    temp[inlen] = 1;
    temp[rsiz - 1] |= 0x80;
    for (size_t i = 0; i < rsiz / 8; i++) {
        uint64_t w;
        memcpy(&w, temp + 8 * i, 8);
        st[i] ^= w;
    }
    keccakf(st);
    memcpy(out, st, 32);
}

/* incremental helper: a growable buffer that is hashed at the end */
typedef struct {
    u8 *p;
    size_t n, cap;
} hbuf;
static void hb_add(hbuf *b, const void *d, size_t n)
{
    if (b->n + n > b->cap) {
        b->cap = (b->n + n) * 2 + 64;
        b->p = realloc(b->p, b->cap);
        if (!b->p) abort();
    }
    if (n) memcpy(b->p + b->n, d, n);
    b->n += n;
}
static void hb_hash(hbuf *b, u8 out[32])
{
    keccak256(b->p ? b->p : (const u8 *)"", b->n, out);
    free(b->p);
    b->p = NULL;
    b->n = b->cap = 0;
}

/* ------------------------------------------------------------ group helpers */

static const u8 ID_PT[32] = {1};
static const u8 ZERO32[32] = {0};
static const u8 H_PT[32] = {0x8b, 0x65, 0x59, 0x70, 0x15, 0x37, 0x99, 0xaf, 0x2a, 0xea, 0xdc, 0x9f, 0xf1, 0xad, 0xd0, 0xea,
                            0x6c, 0x72, 0x51, 0xd5, 0x41, 0x54, 0xcf, 0xa9, 0x2c, 0x17, 0x3a, 0x0d, 0xd3, 0x9c, 0x1f, 0x94};
static const u8 L_SC[32] = {0xed, 0xd3, 0xf5, 0x5c, 0x1a, 0x63, 0x12, 0x58, 0xd6, 0x9c, 0xf7, 0xa2, 0xde, 0xf9, 0xde, 0x14,
                            0,    0,    0,    0,    0,    0,    0,    0,    0,    0,    0,    0,    0,    0,    0,    0x10};

static int is_zero32(const u8 *a) { return sodium_is_zero(a, 32); }

/* a < L ? (little endian compare) */
static int sc_is_canonical(const u8 *a)
{
    for (int i = 31; i >= 0; i--) {
        if (a[i] < L_SC[i]) return 1;
        if (a[i] > L_SC[i]) return 0;
    }
    return 0;
}

static void sc_reduce32(u8 r[32], const u8 a[32])
{
    u8 w[64];
    memset(w, 0, 64);
    memcpy(w, a, 32);
    crypto_core_ed25519_scalar_reduce(r, w);
}
static void sc_add(u8 r[32], const u8 a[32], const u8 b[32])
{
    u8 x[32], y[32];
    sc_reduce32(x, a);
    sc_reduce32(y, b);
    crypto_core_ed25519_scalar_add(r, x, y);
}
static void sc_sub(u8 r[32], const u8 a[32], const u8 b[32])
{
    u8 x[32], y[32];
    sc_reduce32(x, a);
    sc_reduce32(y, b);
    crypto_core_ed25519_scalar_sub(r, x, y);
}
static void sc_mul(u8 r[32], const u8 a[32], const u8 b[32])
{
    u8 x[32], y[32];
    sc_reduce32(x, a);
    sc_reduce32(y, b);
    crypto_core_ed25519_scalar_mul(r, x, y);
}
/* r = a - b*c */
static void sc_mulsub(u8 r[32], const u8 b[32], const u8 c[32], const u8 a[32])
{
    u8 t[32];
    sc_mul(t, b, c);
    sc_sub(r, a, t);
}

/* on-curve test that accepts torsion / small-order points too */
static int pt_on_curve(const u8 p[32])
{
    u8 t[32];
    return crypto_core_ed25519_add(t, p, ID_PT) == 0;
}
static int pt_add(u8 r[32], const u8 a[32], const u8 b[32]) { return crypto_core_ed25519_add(r, a, b); }
static int pt_sub(u8 r[32], const u8 a[32], const u8 b[32]) { return crypto_core_ed25519_sub(r, a, b); }

/* generic double-and-add over crypto_core_ed25519_add: any on-curve point, any 256-bit scalar */
static int pt_mul_slow(u8 r[32], const u8 n[32], const u8 p[32])
{
    u8 acc[32], t[32];
    if (!pt_on_curve(p)) return -1;
    memcpy(acc, ID_PT, 32);
    for (int i = 255; i >= 0; i--) {
        if (pt_add(t, acc, acc) != 0) return -1;
        memcpy(acc, t, 32);
        if ((n[i >> 3] >> (i & 7)) & 1) {
            if (pt_add(t, acc, p) != 0) return -1;
            memcpy(acc, t, 32);
        }
    }
    memcpy(r, acc, 32);
    return 0;
}

/* r = n*p ; 0 on success, -1 if p is not a curve point (r zeroed) */
static int pt_mul(u8 r[32], const u8 n[32], const u8 p[32])
{
    if (!(n[31] & 0x80) && crypto_core_ed25519_is_valid_point(p)) {
        if (is_zero32(n)) {
            memcpy(r, ID_PT, 32);
            return 0;
        }
        u8 q[32];
        if (crypto_scalarmult_ed25519_noclamp(q, n, p) == 0) {
            memcpy(r, q, 32);
            return 0;
        }
        /* valid main-subgroup point, non-zero scalar, libsodium says "infinity" */
        memcpy(r, ID_PT, 32);
        return 0;
    }
    if (pt_mul_slow(r, n, p) != 0) {
        memset(r, 0, 32);
        return -1;
    }
    return 0;
}
static void pt_mul_base(u8 r[32], const u8 n[32])
{
    u8 s[32];
    sc_reduce32(s, n);
    if (is_zero32(s)) {
        memcpy(r, ID_PT, 32);
        return;
    }
    if (crypto_scalarmult_ed25519_base_noclamp(r, s) != 0) memcpy(r, ID_PT, 32);
}
static void pt_mul_H(u8 r[32], const u8 n[32])
{
    u8 s[32];
    sc_reduce32(s, n);
    pt_mul(r, s, H_PT);
}
static int pt_mul8(u8 r[32], const u8 p[32])
{
    u8 e[32] = {8};
    return pt_mul(r, e, p);
}

static void hash_to_scalar(const u8 *d, size_t n, u8 out[32])
{
    u8 h[32];
    keccak256(d, n, h);
    sc_reduce32(out, h);
}
/* Hp(): hash to a point of the prime-order subgroup */
static void hash_to_ec(const u8 key[32], u8 out[32])
{
    u8 h[32];
    keccak256(key, 32, h);
    crypto_core_ed25519_from_uniform(out, h);
}

static void amount_to_key(uint64_t a, u8 k[32])
{
    memset(k, 0, 32);
    for (int i = 0; i < 8; i++) k[i] = (u8)(a >> (8 * i));
}

/* ------------------------------------------------------------------- DRBG */

static pthread_mutex_t rng_mu = PTHREAD_MUTEX_INITIALIZER;
static u8 rng_state[32] = {0x78, 0x73, 0x75, 0x62};
static uint64_t rng_ctr = 0;

void xsub_seed(uint64_t seed)
{
    u8 b[40];
    pthread_mutex_lock(&rng_mu);
    memset(b, 0, sizeof b);
    memcpy(b, "xsub-seed", 9);
    memcpy(b + 32, &seed, 8);
    keccak256(b, sizeof b, rng_state);
    rng_ctr = 0;
    pthread_mutex_unlock(&rng_mu);
}
static void rng_scalar(u8 out[32])
{
    u8 b[40], h[32];
    do {
        pthread_mutex_lock(&rng_mu);
        memcpy(b, rng_state, 32);
        rng_ctr++;
        memcpy(b + 32, &rng_ctr, 8);
        pthread_mutex_unlock(&rng_mu);
        keccak256(b, sizeof b, h);
        sc_reduce32(out, h);
    } while (is_zero32(out));
}

/* ------------------------------------------------------- x_* : scalar/point */

void x_sc_add(char *s, char *a, char *b) { sc_add((u8 *)s, (u8 *)a, (u8 *)b); }
void x_sc_sub(char *s, char *a, char *b) { sc_sub((u8 *)s, (u8 *)a, (u8 *)b); }
void x_sc_secret_add(void *r, void *a, void *b) { sc_add((u8 *)r, (u8 *)a, (u8 *)b); }
void x_skGen(char *k) { rng_scalar((u8 *)k); }
void x_skpkGen(char *sk, char *pk)
{
    rng_scalar((u8 *)sk);
    pt_mul_base((u8 *)pk, (u8 *)sk);
}
void x_scalarmultBase(char *aG, char *a) { pt_mul_base((u8 *)aG, (u8 *)a); }
void x_scalarmultKey(char *aP, char *P, char *a) { pt_mul((u8 *)aP, (u8 *)a, (u8 *)P); }
void x_scalarmultH(char *aH, char *a) { pt_mul_H((u8 *)aH, (u8 *)a); }
void x_scalarmult8(char *p, char *ret)
{
    if (pt_mul8((u8 *)ret, (u8 *)p) != 0) memset(ret, 0, 32);
}
void x_addKeys(char *ab, char *a, char *b)
{
    if (pt_add((u8 *)ab, (u8 *)a, (u8 *)b) != 0) memset(ab, 0, 32);
}
/* aGbB = a*G + b*B */
void x_addKeys2(char *aGbB, char *a, char *b, char *B)
{
    u8 t1[32], t2[32];
    pt_mul_base(t1, (u8 *)a);
    if (pt_mul(t2, (u8 *)b, (u8 *)B) != 0 || pt_add((u8 *)aGbB, t1, t2) != 0) memset(aGbB, 0, 32);
}
static void commit(u8 c[32], const u8 mask[32], const u8 amount_key[32])
{
    u8 t1[32], t2[32];
    pt_mul_base(t1, mask);
    pt_mul_H(t2, amount_key);
    pt_add(c, t1, t2);
}
void x_genC(char *c, char *a, unsigned long long amount)
{
    u8 ak[32];
    amount_to_key(amount, ak);
    commit((u8 *)c, (u8 *)a, ak);
}
void x_zeroCommit(char *ret, unsigned long long amount)
{
    u8 ak[32], one[32] = {1};
    amount_to_key(amount, ak);
    commit((u8 *)ret, one, ak);
}
/* 0 == valid (on the curve) */
int x_checkKey(char *pk) { return pt_on_curve((u8 *)pk) ? 0 : -1; }

/* --------------------------------------------------- x_* : cryptonote keys */

static size_t put_varint(u8 *p, uint64_t v)
{
    size_t n = 0;
    while (v >= 0x80) {
        p[n++] = (u8)(v & 0x7f) | 0x80;
        v >>= 7;
    }
    p[n++] = (u8)v;
    return n;
}
static void derivation_to_scalar(const u8 D[32], size_t idx, u8 out[32])
{
    u8 b[32 + 10];
    memcpy(b, D, 32);
    size_t n = 32 + put_varint(b + 32, (uint64_t)idx);
    hash_to_scalar(b, n, out);
}
int x_generate_key_derivation(void *pub, void *sec, void *der)
{
    u8 t[32], s[32];
    if (!pt_on_curve((u8 *)pub)) return -1;
    sc_reduce32(s, (u8 *)sec);
    if (pt_mul(t, s, (u8 *)pub) != 0) return -1;
    if (pt_mul8((u8 *)der, t) != 0) return -1;
    return 0;
}
int x_derivation_to_scalar(void *der, size_t idx, void *res)
{
    derivation_to_scalar((u8 *)der, idx, (u8 *)res);
    return 0;
}
int x_derive_public_key(void *der, size_t idx, void *pub, void *out)
{
    u8 s[32], t[32];
    if (!pt_on_curve((u8 *)pub)) return -1;
    derivation_to_scalar((u8 *)der, idx, s);
    pt_mul_base(t, s);
    return pt_add((u8 *)out, t, (u8 *)pub) == 0 ? 0 : -1;
}
int x_derive_secret_key(void *der, size_t idx, void *sec, void *out)
{
    u8 s[32];
    derivation_to_scalar((u8 *)der, idx, s);
    sc_add((u8 *)out, (u8 *)sec, s);
    return 0;
}
int x_derive_subaddress_public_key(void *pub, void *der, size_t idx, void *out)
{
    u8 s[32], t[32];
    if (!pt_on_curve((u8 *)pub)) return -1;
    derivation_to_scalar((u8 *)der, idx, s);
    pt_mul_base(t, s);
    return pt_sub((u8 *)out, (u8 *)pub, t) == 0 ? 0 : -1;
}
int x_secret_key_to_public_key(void *sec, void *pub)
{
    if (!sc_is_canonical((u8 *)sec)) return -1;
    pt_mul_base((u8 *)pub, (u8 *)sec);
    return 0;
}
void x_generate_keys(void *pub, void *sec, void *recover)
{
    sc_reduce32((u8 *)sec, (u8 *)recover);
    pt_mul_base((u8 *)pub, (u8 *)sec);
}
int x_generate_key_image(void *pub, void *sec, void *image)
{
    u8 hp[32], s[32];
    if (!sc_is_canonical((u8 *)sec)) return -1;
    hash_to_ec((u8 *)pub, hp);
    sc_reduce32(s, (u8 *)sec);
    return pt_mul((u8 *)image, s, hp);
}
static void subaddress_secret(const u8 view_sec[32], uint32_t index, u8 out[32])
{
    u8 b[8 + 32 + 8];
    memcpy(b, "SubAddr\0", 8);
    memcpy(b + 8, view_sec, 32);
    memset(b + 40, 0, 8);
    for (int i = 0; i < 4; i++) b[44 + i] = (u8)(index >> (8 * i));
    hash_to_scalar(b, sizeof b, out);
}
void x_get_subaddress_secret_key(void *sec, uint32_t index, void *sub) { subaddress_secret((u8 *)sec, index, (u8 *)sub); }

int x_words_to_bytes(char *words, void *dst)
{
    (void)words;
    (void)dst;
    return -1;
}
int x_bytes_to_words(void *src, char **words, char *lang)
{
    (void)src;
    (void)words;
    (void)lang;
    return -1;
}

/* ---------------------------------------------------------- ring signature */

typedef struct {
    char **v;
    int nums;
} x_keyV;
typedef struct {
    char c[32];
    char r[32];
} x_sig;

/* The Go wrapper hands over room for exactly ONE signature, so only ring size 1 is served. */
int x_generate_ring_signature(char *prefix, char *image, x_keyV *pubs, char *sec, size_t sec_index, x_sig *sig)
{
    u8 k[32], hp[32], buf[96], c[32], s[32];
    if (!pubs || pubs->nums != 1 || sec_index != 0) return -1;
    const u8 *P = (const u8 *)pubs->v[0];
    (void)image;
    rng_scalar(k);
    memcpy(buf, prefix, 32);
    pt_mul_base(buf + 32, k);
    hash_to_ec(P, hp);
    if (pt_mul(buf + 64, k, hp) != 0) return -1;
    hash_to_scalar(buf, 96, c);
    sc_reduce32(s, (u8 *)sec);
    sc_mulsub((u8 *)sig->r, c, s, k);
    memcpy(sig->c, c, 32);
    return 0;
}
/* 0 == ok */
int x_check_ring_signature(char *prefix, char *image, x_keyV *pubs, x_sig *sig)
{
    u8 hp[32], buf[96], c[32], t1[32], t2[32];
    if (!pubs || pubs->nums != 1) return -1;
    const u8 *P = (const u8 *)pubs->v[0];
    const u8 *I = (const u8 *)image;
    if (!sc_is_canonical((u8 *)sig->c) || !sc_is_canonical((u8 *)sig->r)) return -1;
    if (!pt_on_curve(P) || !pt_on_curve(I)) return -1;
    memcpy(buf, prefix, 32);
    /* L = rG + cP */
    pt_mul_base(t1, (u8 *)sig->r);
    if (pt_mul(t2, (u8 *)sig->c, P) != 0 || pt_add(buf + 32, t1, t2) != 0) return -1;
    /* R = r*Hp(P) + c*I */
    hash_to_ec(P, hp);
    if (pt_mul(t1, (u8 *)sig->r, hp) != 0 || pt_mul(t2, (u8 *)sig->c, I) != 0 || pt_add(buf + 64, t1, t2) != 0) return -1;
    hash_to_scalar(buf, 96, c);
    return sodium_memcmp(c, sig->c, 32) == 0 ? 0 : -1;
}

/* ------------------------------------------------------------------- ECDH */

typedef struct {
    char *mask;
    char *amount;
} x_ecdh;

static void ecdh_keys(const u8 shared[32], u8 k1[32], u8 k2[32])
{
    hash_to_scalar(shared, 32, k1);
    hash_to_scalar(k1, 32, k2);
}
int x_ecdh_encode(x_ecdh *t, char *shared, int short_amount)
{
    u8 k1[32], k2[32];
    (void)short_amount;
    ecdh_keys((u8 *)shared, k1, k2);
    sc_add((u8 *)t->mask, (u8 *)t->mask, k1);
    sc_add((u8 *)t->amount, (u8 *)t->amount, k2);
    return 0;
}
int x_ecdh_decode(x_ecdh *t, char *shared, int short_amount)
{
    u8 k1[32], k2[32];
    (void)short_amount;
    ecdh_keys((u8 *)shared, k1, k2);
    sc_sub((u8 *)t->mask, (u8 *)t->mask, k1);
    sc_sub((u8 *)t->amount, (u8 *)t->amount, k2);
    return 0;
}

/* -------------------------------------------------------------------- TLV */
/* header: tag u16 LE, len u16 LE.  Maps: fields in arbitrary order.            */

typedef struct {
    const u8 *p;
    int n;
} span;

static int tlv_find(span in, int tag, span *out)
{
    int off = 0;
    while (off + 4 <= in.n) {
        int t = in.p[off] | (in.p[off + 1] << 8);
        int l = in.p[off + 2] | (in.p[off + 3] << 8);
        if (off + 4 + l > in.n) return -1;
        if (t == tag) {
            out->p = in.p + off + 4;
            out->n = l;
            return 0;
        }
        off += 4 + l;
    }
    return -1;
}
/* n-th headed element of a sequence (tags ignored) */
static int tlv_nth(span in, int idx, span *out)
{
    int off = 0, i = 0;
    while (off + 4 <= in.n) {
        int l = in.p[off + 2] | (in.p[off + 3] << 8);
        if (off + 4 + l > in.n) return -1;
        if (i == idx) {
            out->p = in.p + off + 4;
            out->n = l;
            return 0;
        }
        off += 4 + l;
        i++;
    }
    return -1;
}
static int tlv_count(span in)
{
    int off = 0, i = 0;
    while (off + 4 <= in.n) {
        int l = in.p[off + 2] | (in.p[off + 3] << 8);
        if (off + 4 + l > in.n) return -1;
        off += 4 + l;
        i++;
    }
    return off == in.n ? i : -1;
}
static int tlv_key(span in, int tag, u8 out[32])
{
    span s;
    if (tlv_find(in, tag, &s) != 0 || s.n != 32) return -1;
    memcpy(out, s.p, 32);
    return 0;
}
/* Ctkey map {1: dest, 2: mask}, always 72 bytes */
static int tlv_ctkey(span in, u8 dest[32], u8 mask[32])
{
    if (tlv_key(in, 1, dest) != 0 || tlv_key(in, 2, mask) != 0) return -1;
    return 0;
}

static u8 *wr_head(u8 *p, int tag, int len)
{
    p[0] = (u8)tag;
    p[1] = (u8)(tag >> 8);
    p[2] = (u8)len;
    p[3] = (u8)(len >> 8);
    return p + 4;
}
static u8 *wr_field(u8 *p, int tag, const void *d, int len)
{
    p = wr_head(p, tag, len);
    if (len) memcpy(p, d, len);
    return p + len;
}

/* ------------------------------------------------------------- tlv_addKeyV */

int tlv_addKeyV(char *sum, unsigned char *raw, int in_len)
{
    u8 acc[32], t[32];
    if (in_len < 0 || in_len % 32 != 0) return -1;
    memcpy(acc, ID_PT, 32);
    for (int i = 0; i < in_len; i += 32) {
        if (pt_add(t, acc, raw + i) != 0) {
            memset(sum, 0, 32);
            return -1;
        }
        memcpy(acc, t, 32);
    }
    memcpy(sum, acc, 32);
    return 0;
}

/* --------------------------------------------------------- tlv_get_subaddress */

int tlv_get_subaddress(uint32_t index, unsigned char *raw, int in_len, unsigned char **out)
{
    span in = {raw, in_len}, addr;
    u8 spend_pub[32], view_pub[32], view_sec[32], m[32], M[32], D[32], C[32];
    if (tlv_find(in, 1, &addr) != 0) return -1;
    if (tlv_key(addr, 1, spend_pub) != 0 || tlv_key(addr, 2, view_pub) != 0) return -1;
    if (tlv_key(in, 3, view_sec) != 0) return -1;
    if (index == 0) {
        memcpy(D, spend_pub, 32);
        memcpy(C, view_pub, 32);
    } else {
        u8 a[32];
        subaddress_secret(view_sec, index, m);
        pt_mul_base(M, m);
        if (pt_add(D, spend_pub, M) != 0) return -1;
        sc_reduce32(a, view_sec);
        if (pt_mul(C, a, D) != 0) return -1;
    }
    u8 *o = malloc(72), *p = o;
    if (!o) return -1;
    p = wr_field(p, 1, D, 32);
    p = wr_field(p, 2, C, 32);
    *out = o;
    return 72;
}

/* -------------------------------------------------------------- range proof */
/*
 * Transparent opening proof.  Bulletproof fields used:
 *   L[i] = mask_i   (i < M), zero padding up to nL
 *   R[i] = amount_i (i < M, little-endian integer in a key), zero padding
 *   A    = Hs("xsub-range-proof" || nbits || M || L || R)   (a structural tag)
 * with nL = max(6 + ceil(log2 M), M) so that the Go side's size rules hold.
 * Verification: A matches; for every i < |V|: 8*V_i == mask_i*G + amount_i*H and
 * amount_i < 2^nbits; padding entries are zero.
 */
static void mask_from_sk(const u8 sk[32], u8 mask[32])
{
    u8 b[15 + 32];
    memcpy(b, "commitment_mask", 15);
    memcpy(b + 15, sk, 32);
    hash_to_scalar(b, sizeof b, mask);
}
static int ceil_log2(int m)
{
    int l = 0;
    while ((1 << l) < m) l++;
    return l;
}
static void bp_tag(int nbits, int M, const u8 *L, const u8 *R, int nL, u8 out[32])
{
    hbuf hb = {0};
    u8 hdr[8] = {(u8)nbits, 0, 0, 0, (u8)M, (u8)(M >> 8), 0, 0};
    hb_add(&hb, "xsub-range-proof", 16);
    hb_add(&hb, hdr, 8);
    hb_add(&hb, L, (size_t)nL * 32);
    hb_add(&hb, R, (size_t)nL * 32);
    u8 h[32];
    hb_hash(&hb, h);
    sc_reduce32(out, h);
}
static int amount_in_range(const u8 a[32], int nbits)
{
    for (int i = nbits / 8; i < 32; i++)
        if (a[i]) return 0;
    return 1;
}

static int prove_range(unsigned char *raw, int in_len, unsigned char **out, int nbits)
{
    span in = {raw, in_len}, am, sk;
    if (tlv_find(in, 1, &am) != 0 || tlv_find(in, 2, &sk) != 0) return -1;
    if (am.n % 32 || sk.n % 32 || am.n != sk.n || am.n == 0) return -1;
    int M = am.n / 32;
    if (M > 1024) return -1;
    int nL = 6 + ceil_log2(M);
    if (nL < M) nL = M;
    u8 *L = calloc((size_t)nL, 32), *R = calloc((size_t)nL, 32), *V = calloc((size_t)M, 32);
    if (!L || !R || !V) abort();
    static const u8 INV8[32] = {0x79, 0x2f, 0xdc, 0xe2, 0x29, 0xe5, 0x06, 0x61, 0xd0, 0xda, 0x1c, 0x7d, 0xb3, 0x9d, 0xd3, 0x07,
                                0,    0,    0,    0,    0,    0,    0,    0,    0,    0,    0,    0,    0,    0,    0,    0x06};
    for (int i = 0; i < M; i++) {
        const u8 *a = am.p + 32 * i;
        if (!amount_in_range(a, nbits)) {
            free(L);
            free(R);
            free(V);
            return -1;
        }
        mask_from_sk(sk.p + 32 * i, L + 32 * i);
        memcpy(R + 32 * i, a, 32);
        u8 c[32];
        commit(c, L + 32 * i, a);
        pt_mul(V + 32 * i, INV8, c);
    }
    u8 A[32];
    bp_tag(nbits, M, L, R, nL, A);
    /* bulletproof map: 12 fields */
    int bpsz = (4 + M * 32) + 9 * (4 + 32) + 2 * (4 + nL * 32);
    int total = (4 + M * 32) + (4 + M * 32) + (4 + bpsz);
    u8 *o = malloc((size_t)total), *p = o;
    if (!o) abort();
    p = wr_field(p, 1, V, M * 32);
    p = wr_field(p, 2, L, M * 32); /* masks */
    p = wr_head(p, 3, bpsz);
    p = wr_field(p, 1, V, M * 32);
    p = wr_field(p, 2, A, 32);
    p = wr_field(p, 3, ZERO32, 32);
    p = wr_field(p, 4, ZERO32, 32);
    p = wr_field(p, 5, ZERO32, 32);
    p = wr_field(p, 6, ZERO32, 32);
    p = wr_field(p, 7, ZERO32, 32);
    p = wr_field(p, 8, L, nL * 32);
    p = wr_field(p, 9, R, nL * 32);
    p = wr_field(p, 10, ZERO32, 32);
    p = wr_field(p, 11, ZERO32, 32);
    p = wr_field(p, 12, ZERO32, 32);
    free(L);
    free(R);
    free(V);
    if (p - o != total) abort();
    *out = o;
    return total;
}
int tlv_proveRangeBulletproof(unsigned char *raw, int in_len, unsigned char **out) { return prove_range(raw, in_len, out, 64); }
int tlv_proveRangeBulletproof128(unsigned char *raw, int in_len, unsigned char **out) { return prove_range(raw, in_len, out, 128); }

/* 1 valid, 0 invalid, -1 malformed */
static int verify_range(span bp, int nbits)
{
    span V, L, R;
    u8 A[32], want[32];
    if (tlv_find(bp, 1, &V) != 0 || tlv_find(bp, 8, &L) != 0 || tlv_find(bp, 9, &R) != 0 || tlv_key(bp, 2, A) != 0) return -1;
    if (V.n % 32 || L.n % 32 || R.n % 32) return -1;
    int M = V.n / 32, nL = L.n / 32;
    if (M == 0 || R.n != L.n || nL < M) return 0;
    int need = 6 + ceil_log2(M);
    if (need < M) need = M;
    if (nL != need) return 0;
    bp_tag(nbits, M, L.p, R.p, nL, want);
    if (sodium_memcmp(want, A, 32) != 0) return 0;
    for (int i = M; i < nL; i++)
        if (!is_zero32(L.p + 32 * i) || !is_zero32(R.p + 32 * i)) return 0;
    for (int i = 0; i < M; i++) {
        const u8 *mask = L.p + 32 * i, *a = R.p + 32 * i;
        u8 c[32], v8[32];
        if (!sc_is_canonical(mask)) return 0;
        if (!amount_in_range(a, nbits)) return 0;
        commit(c, mask, a);
        if (pt_mul8(v8, V.p + 32 * i) != 0) return 0;
        if (sodium_memcmp(c, v8, 32) != 0) return 0;
    }
    return 1;
}
int tlv_verBulletproof(unsigned char *raw, int in_len)
{
    span bp = {raw, in_len};
    return verify_range(bp, 64);
}
int tlv_verBulletproof128(unsigned char *raw, int in_len)
{
    span bp = {raw, in_len};
    return verify_range(bp, 128);
}

/* -------------------------------------------------------------------- MLSAG */
/* simple variant: 2 rows (key row with key image, commitment row), n columns   */

static void mlsag_round(const u8 msg[32], const u8 P[32], const u8 Cd[32], const u8 L0[32], const u8 R0[32], const u8 L1[32], u8 c[32])
{
    u8 b[6 * 32];
    memcpy(b, msg, 32);
    memcpy(b + 32, P, 32);
    memcpy(b + 64, L0, 32);
    memcpy(b + 96, R0, 32);
    memcpy(b + 128, Cd, 32);
    memcpy(b + 160, L1, 32);
    hash_to_scalar(b, sizeof b, c);
}

/* in: {1: message, 2: pubs CtkeyV, 3: inSk Ctkey, 4: a, 5: pseudoOut, 6: kLRki (ignored)} -> MgSig {1: cc, 2: II, 3: ss} */
int tlv_proveRctMGSimple(char *mscout, unsigned int index, unsigned char *raw, int in_len, unsigned char **out)
{
    span in = {raw, in_len}, pubs, insk;
    u8 msg[32], a[32], pseudo[32], x[32], inmask[32], z[32];
    (void)mscout;
    if (tlv_key(in, 1, msg) != 0 || tlv_find(in, 2, &pubs) != 0 || tlv_find(in, 3, &insk) != 0 || tlv_key(in, 4, a) != 0 ||
        tlv_key(in, 5, pseudo) != 0)
        return -1;
    if (pubs.n % 72 || pubs.n == 0) return -1;
    int n = pubs.n / 72;
    if ((int)index >= n || n > 4096) return -1;
    if (tlv_ctkey(insk, x, inmask) != 0) return -1;
    sc_sub(z, inmask, a);

    u8 *P = malloc((size_t)n * 32), *Cd = malloc((size_t)n * 32), *s0 = malloc((size_t)n * 32), *s1 = malloc((size_t)n * 32),
       *cs = malloc((size_t)(n + 1) * 32);
    if (!P || !Cd || !s0 || !s1 || !cs) abort();
    int rc = -1;
    for (int i = 0; i < n; i++) {
        span e = {pubs.p + 72 * i, 72};
        u8 C[32];
        if (tlv_ctkey(e, P + 32 * i, C) != 0) goto done;
        if (pt_sub(Cd + 32 * i, C, pseudo) != 0) goto done;
        if (!pt_on_curve(P + 32 * i)) goto done;
    }
    u8 I[32], hp[32], a0[32], a1[32], L0[32], R0[32], L1[32], t1[32], t2[32], c[32];
    hash_to_ec(P + 32 * index, hp);
    {
        u8 xs[32];
        sc_reduce32(xs, x);
        if (pt_mul(I, xs, hp) != 0) goto done;
    }
    rng_scalar(a0);
    rng_scalar(a1);
    pt_mul_base(L0, a0);
    if (pt_mul(R0, a0, hp) != 0) goto done;
    pt_mul_base(L1, a1);
    int i = ((int)index + 1) % n;
    mlsag_round(msg, P + 32 * index, Cd + 32 * index, L0, R0, L1, c);
    if (i == 0) memcpy(cs, c, 32);
    while (i != (int)index) {
        rng_scalar(s0 + 32 * i);
        rng_scalar(s1 + 32 * i);
        pt_mul_base(t1, s0 + 32 * i);
        if (pt_mul(t2, c, P + 32 * i) != 0 || pt_add(L0, t1, t2) != 0) goto done;
        hash_to_ec(P + 32 * i, hp);
        if (pt_mul(t1, s0 + 32 * i, hp) != 0 || pt_mul(t2, c, I) != 0 || pt_add(R0, t1, t2) != 0) goto done;
        pt_mul_base(t1, s1 + 32 * i);
        if (pt_mul(t2, c, Cd + 32 * i) != 0 || pt_add(L1, t1, t2) != 0) goto done;
        mlsag_round(msg, P + 32 * i, Cd + 32 * i, L0, R0, L1, c);
        i = (i + 1) % n;
        if (i == 0) memcpy(cs, c, 32);
    }
    /* c is now c_index */
    sc_mulsub(s0 + 32 * index, c, x, a0);
    sc_mulsub(s1 + 32 * index, c, z, a1);
    if (n == 1) {
        /* cc = c_0 = c_{index}: recompute from the closed ring */
        memcpy(cs, c, 32);
        /* for n==1 the hash computed first IS c_{(index+1)%n}=c_0, stored above when i==0 */
    }
    {
        int sssz = n * (4 + 64);
        int total = (4 + 32) + (4 + 32) + (4 + sssz);
        u8 *o = malloc((size_t)total), *p = o;
        if (!o) abort();
        p = wr_field(p, 1, cs, 32);
        p = wr_field(p, 2, I, 32);
        p = wr_head(p, 3, sssz);
        for (int j = 0; j < n; j++) {
            p = wr_head(p, j, 64);
            memcpy(p, s0 + 32 * j, 32);
            memcpy(p + 32, s1 + 32 * j, 32);
            p += 64;
        }
        *out = o;
        rc = total;
    }
done:
    free(P);
    free(Cd);
    free(s0);
    free(s1);
    free(cs);
    return rc;
}

/* 1 ok, 0 bad */
static int mlsag_verify(const u8 msg[32], span ring /*CtkeyV*/, const u8 pseudo[32], span mg)
{
    span ss, II;
    u8 cc[32], I[32];
    if (tlv_key(mg, 1, cc) != 0 || tlv_find(mg, 2, &II) != 0 || tlv_find(mg, 3, &ss) != 0) return 0;
    if (II.n != 32) return 0;
    memcpy(I, II.p, 32);
    if (ring.n % 72 || ring.n == 0) return 0;
    int n = ring.n / 72;
    if (tlv_count(ss) != n) return 0;
    if (!sc_is_canonical(cc)) return 0;
    if (!pt_on_curve(I)) return 0;
    if (sodium_memcmp(I, ID_PT, 32) == 0) return 0;
    u8 c[32];
    memcpy(c, cc, 32);
    for (int i = 0; i < n; i++) {
        span e = {ring.p + 72 * i, 72}, row;
        u8 P[32], C[32], Cd[32], hp[32], L0[32], R0[32], L1[32], t1[32], t2[32];
        if (tlv_ctkey(e, P, C) != 0) return 0;
        if (tlv_nth(ss, i, &row) != 0 || row.n != 64) return 0;
        const u8 *s0 = row.p, *s1 = row.p + 32;
        if (!sc_is_canonical(s0) || !sc_is_canonical(s1)) return 0;
        if (pt_sub(Cd, C, pseudo) != 0) return 0;
        pt_mul_base(t1, s0);
        if (pt_mul(t2, c, P) != 0 || pt_add(L0, t1, t2) != 0) return 0;
        hash_to_ec(P, hp);
        if (pt_mul(t1, s0, hp) != 0 || pt_mul(t2, c, I) != 0 || pt_add(R0, t1, t2) != 0) return 0;
        pt_mul_base(t1, s1);
        if (pt_mul(t2, c, Cd) != 0 || pt_add(L1, t1, t2) != 0) return 0;
        mlsag_round(msg, P, Cd, L0, R0, L1, c);
    }
    return sodium_memcmp(c, cc, 32) == 0;
}

/* ------------------------------------------------------------ RctSig access */

typedef struct {
    span base, prun;
} rctsig;
static int rct_open(unsigned char *raw, int in_len, rctsig *r)
{
    span in = {raw, in_len};
    if (tlv_find(in, 1, &r->prun) != 0 || tlv_find(in, 2, &r->base) != 0) return -1;
    return 0;
}

/* message || H(type, fee, ecdhInfo, outPk) || H(bulletproof A,S,T1,T2,taux,mu,L,R,a,b,t) */
static int pre_mlsag_hash(const rctsig *r, u8 out[32])
{
    u8 parts[96];
    span s, bps;
    hbuf hb = {0};
    if (tlv_key(r->base, 2, parts) != 0) return -1;
    if (tlv_find(r->base, 1, &s) == 0) hb_add(&hb, s.p, (size_t)s.n);
    if (tlv_find(r->base, 7, &s) == 0) hb_add(&hb, s.p, (size_t)s.n);
    if (tlv_find(r->base, 5, &s) == 0) {
        /* ecdh tuples: 108-byte maps with arbitrary inner order: hash mask||amount canonically */
        if (s.n % 108) {
            free(hb.p);
            return -1;
        }
        for (int i = 0; i < s.n; i += 108) {
            span e = {s.p + i, 108};
            u8 k[32];
            if (tlv_key(e, 1, k) == 0) hb_add(&hb, k, 32);
            if (tlv_key(e, 2, k) == 0) hb_add(&hb, k, 32);
        }
    }
    if (tlv_find(r->base, 6, &s) == 0) {
        if (s.n % 72) {
            free(hb.p);
            return -1;
        }
        for (int i = 0; i < s.n; i += 72) {
            span e = {s.p + i, 72};
            u8 d[32], m[32];
            if (tlv_ctkey(e, d, m) == 0) hb_add(&hb, m, 32);
        }
    }
    hb_hash(&hb, parts + 32);
    if (tlv_find(r->prun, 2, &bps) == 0) {
        int nb = tlv_count(bps);
        for (int i = 0; i < nb; i++) {
            span bp, f;
            if (tlv_nth(bps, i, &bp) != 0) break;
            static const int order[] = {2, 3, 4, 5, 6, 7, 8, 9, 10, 11, 12};
            for (unsigned j = 0; j < sizeof order / sizeof order[0]; j++)
                if (tlv_find(bp, order[j], &f) == 0) hb_add(&hb, f.p, (size_t)f.n);
        }
    }
    hb_hash(&hb, parts + 64);
    keccak256(parts, 96, out);
    return 0;
}
int tlv_get_pre_mlsag_hash(char *key, unsigned char *raw, int in_len)
{
    rctsig r;
    if (rct_open(raw, in_len, &r) != 0) return -1;
    return pre_mlsag_hash(&r, (u8 *)key);
}

/* MLSAGs of every input.  >=0: 1 ok / 0 bad ; -1 malformed */
static int ver_nonsemantics(const rctsig *r)
{
    span mix, pseudo, mgs;
    u8 msg[32];
    if (tlv_find(r->base, 3, &mix) != 0 || tlv_find(r->prun, 4, &pseudo) != 0 || tlv_find(r->prun, 3, &mgs) != 0) return -1;
    if (pre_mlsag_hash(r, msg) != 0) return -1;
    int n = tlv_count(mix);
    if (n <= 0 || pseudo.n != n * 32 || tlv_count(mgs) != n) return 0;
    for (int i = 0; i < n; i++) {
        span ring, mg;
        if (tlv_nth(mix, i, &ring) != 0 || tlv_nth(mgs, i, &mg) != 0) return 0;
        if (!mlsag_verify(msg, ring, pseudo.p + 32 * i, mg)) return 0;
    }
    return 1;
}
/* sum(pseudoOuts) == sum(outPk) + fee*H, and the range proofs */
static int ver_semantics(const rctsig *r)
{
    span pseudo, outpk, bps, fee;
    u8 sumin[32], sumout[32], t[32];
    if (tlv_find(r->prun, 4, &pseudo) != 0 || tlv_find(r->base, 6, &outpk) != 0) return -1;
    if (pseudo.n % 32 || outpk.n % 72) return -1;
    memcpy(sumin, ID_PT, 32);
    for (int i = 0; i < pseudo.n; i += 32) {
        if (pt_add(t, sumin, pseudo.p + i) != 0) return 0;
        memcpy(sumin, t, 32);
    }
    memcpy(sumout, ID_PT, 32);
    for (int i = 0; i < outpk.n; i += 72) {
        span e = {outpk.p + i, 72};
        u8 d[32], m[32];
        if (tlv_ctkey(e, d, m) != 0) return -1;
        if (pt_add(t, sumout, m) != 0) return 0;
        memcpy(sumout, t, 32);
    }
    if (tlv_find(r->base, 7, &fee) == 0 && fee.n == 8) {
        uint64_t f = 0;
        for (int i = 0; i < 8; i++) f = (f << 8) | fee.p[i];
        u8 fk[32], fh[32];
        amount_to_key(f, fk);
        pt_mul_H(fh, fk);
        if (pt_add(t, sumout, fh) != 0) return 0;
        memcpy(sumout, t, 32);
    }
    if (sodium_memcmp(sumin, sumout, 32) != 0) return 0;
    if (tlv_find(r->prun, 2, &bps) == 0) {
        int nb = tlv_count(bps);
        for (int i = 0; i < nb; i++) {
            span bp;
            if (tlv_nth(bps, i, &bp) != 0) return -1;
            int v = verify_range(bp, 64);
            if (v != 1) return v;
        }
    }
    return 1;
}
/* ret<0 == failed (the Go wrapper maps that to false) */
int tlv_verRctNotSemanticsSimple(unsigned char *raw, int in_len)
{
    rctsig r;
    if (rct_open(raw, in_len, &r) != 0) return -1;
    return ver_nonsemantics(&r) == 1 ? 0 : -1;
}
/* -1 internal, 0 invalid, 1 valid */
int tlv_verRctSimple(unsigned char *raw, int in_len)
{
    rctsig r;
    if (rct_open(raw, in_len, &r) != 0) return -1;
    int a = ver_semantics(&r);
    if (a < 0) return -1;
    if (a == 0) return 0;
    int b = ver_nonsemantics(&r);
    if (b < 0) return -1;
    return b;
}

/* ------------------------------------------------- test-only entry points */

int test_tlv_keyV(unsigned char *in, int in_len, unsigned char **out)
{
    if (in_len < 0) return -1;
    u8 *o = malloc((size_t)in_len + 1);
    if (!o) return -1;
    memcpy(o, in, (size_t)in_len);
    *out = o;
    return in_len;
}
int test_tlv_rctsig(unsigned char *raw, int in_len, unsigned char **out) { return test_tlv_keyV(raw, in_len, out); }

/* --------------------------------------------- harness-only helper exports */

/* Hp(key) — lets the harness build adversarial key images */
void xsub_hash_to_ec(char *key, char *out) { hash_to_ec((u8 *)key, (u8 *)out); }
void xsub_keccak(char *data, int len, char *out) { keccak256((u8 *)data, (size_t)len, (u8 *)out); }
