#!/usr/bin/env python3
"""mut.py <worktree> <relative file> <old> <new> -- apply one textual mutation (must match exactly once), after restoring the worktree."""
import subprocess, sys
wt, f, old, new = sys.argv[1:5]
subprocess.run(["git", "-C", wt, "checkout", "--", "."], check=True)
p = wt + "/" + f
s = open(p).read()
n = s.count(old)
if n != 1:
    print("MUTATION PATTERN MATCHES %d TIMES" % n); sys.exit(3)
open(p, "w").write(s.replace(old, new))
print("mutated", f)
