#!/usr/bin/env python3
"""Run the pinned baseline suite (the packages of /root/.vp/BASELINE.json stable_pass) in a linkchain tree and report
every stable test that does not pass there.   usage: baseline.py <repo-dir> [extra go test flags...]
exit 0 = all stable tests pass."""
import json, os, subprocess, sys
repo = sys.argv[1]
extra = sys.argv[2:]
base = json.load(open('/root/.vp/BASELINE.json'))
stable = set(base['stable_pass'])
pkgs = sorted({s.split('::')[0] for s in stable})
env = dict(os.environ, GOFLAGS='-mod=mod', GOPROXY='off', GOSUMDB='off', GOTOOLCHAIN='local')
import concurrent.futures
def run_pkg(pkg):
    # only the stable top-level tests of the package: some unstable ones (libs/p2p/conn TestMConnectionPingPongs) hang
    tops = sorted({s.split('::')[1].split('/')[0] for s in stable if s.split('::')[0] == pkg})
    rel = './' + pkg.split('linkchain/', 1)[1]
    cmd = ['go', 'test', '-json', '-vet=off', '-count=1', '-timeout', '25m', '-run', '^(' + '|'.join(tops) + ')$'] + extra + [rel]
    return subprocess.run(cmd, cwd=repo, env=env, stdout=subprocess.PIPE, stderr=subprocess.STDOUT, text=True).stdout
with concurrent.futures.ThreadPoolExecutor(max_workers=6) as ex:
    outs = list(ex.map(run_pkg, pkgs))
class P: pass
p = P(); p.stdout = '\n'.join(outs)
passed, failed = set(), set()
for line in p.stdout.splitlines():
    try:
        e = json.loads(line)
    except ValueError:
        continue
    if e.get('Test') and e.get('Action') in ('pass', 'fail'):
        (passed if e['Action'] == 'pass' else failed).add(e['Package'] + '::' + e['Test'])
missing = sorted(stable - passed)
print('stable=%d passed_of_stable=%d not_passing=%d other_failed=%d' % (len(stable), len(stable & passed), len(missing), len(failed - stable)))
for m in missing[:40]:
    print('  NOT PASSING:', m, '(failed)' if m in failed else '(did not run)')
sys.exit(1 if missing else 0)
