#!/usr/bin/env python3
"""Regenerates /verif/MANIFEST.json from harness/cNN/plan.json (+ not_applicable.json)."""
import json, os, re, subprocess
ROOT = os.path.dirname(os.path.dirname(os.path.abspath(__file__)))
props = [json.loads(l) for l in open(os.path.join(ROOT, "properties.jsonl")) if l.strip()]
na_path = os.path.join(ROOT, "not_applicable.json")
na_reasons = json.load(open(na_path)) if os.path.exists(na_path) else {}
ready = set(json.load(open(os.path.join(ROOT, "ready.json"))))  # checks verified green on the unchanged tree
checks, na = [], []
for p in props:
    pid = p["id"]
    plan_p = os.path.join(ROOT, "harness", pid.lower(), "plan.json")
    if os.path.exists(plan_p) and pid in ready and pid not in na_reasons:
        plan = json.load(open(plan_p))
        m = plan.get("manifest", {})
        c = {
            "property_id": pid,
            "quick_cmd": "./check %s --tier quick" % pid,
            "thorough_cmd": "./check %s --tier thorough" % pid,
            "evidence_file": "/verif/evidence/%s.json" % pid,
            "replay_cmd_template": "./check %s --replay {path}" % pid,
            "engine": m.get("engine", "rapid"),
            "level_claimed": {
                "category": plan.get("level", "exploration"),
                "text": m.get("text", plan.get("rule", "")),
                "design_ref": m.get("design_ref", "DESIGN.md §4 " + pid),
            },
            "level_note": m.get("note", "; ".join(plan.get("assumptions", [])) or "rapid generators and the oracle in harness/%s" % pid.lower()),
            "technique": m.get("technique", "property-based testing (pgregory.net/rapid) against an explicit oracle"),
        }
        checks.append(c)
    else:
        na.append({"property_id": pid, "reason": na_reasons.get(pid, "no check registered yet: harness for this property is still being built in this session (see DESIGN.md §9 build order)")})
hooks_commits = []
try:
    out = subprocess.run(["git", "-C", "/repo", "log", "--format=%H %s"], capture_output=True, text=True).stdout
    for l in out.splitlines():
        h, s = l.split(" ", 1)
        if s.startswith("verif hook:"):
            hooks_commits.append(h)
except Exception:
    pass
man = {
    "version": 1,
    "setup_cmd": "./check --setup",
    "hooks": {
        "guard": "verif",
        "enable": "go build tag: the driver builds every test binary with `-tags verif` (harness module replaces github.com/lianxiangcloud/linkchain => /repo)",
        "baseline_off_cmd": json.load(open("/root/.vp/BASELINE.json"))["cmd"],
        "source_commits": hooks_commits,
        "add_only": True,
    },
    "engines": [
        {"name": "rapid", "path": "/verif/harness", "serves_properties": [c["property_id"] for c in checks],
         "kind_free_text": "property-based testing with pgregory.net/rapid v1.3.0 (stateful histories, model-based and differential oracles), native go fuzzing for byte-level targets in the thorough tier; driver /verif/check"},
        {"name": "xsub", "path": "/verif/xsub", "serves_properties": ["C05", "C06", "C07", "C08", "C13", "C15"],
         "kind_free_text": "functional C substitute for the closed libxcrypto.a (on libsodium) so that the core packages link; see DESIGN.md §0"},
    ],
    "checks": checks,
    "not_applicable": na,
    "notes": "Driver contract, tiers, seeds, known findings: DESIGN.md §1. KNOWN_FINDINGS.jsonl lists findings by root-cause key.",
}
json.dump(man, open(os.path.join(ROOT, "MANIFEST.json"), "w"), indent=1)
print("checks:", [c["property_id"] for c in checks], "not_applicable:", len(na))
