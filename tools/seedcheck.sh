#!/bin/bash
# usage: seedcheck.sh <ID> [check args...]   - confirm a seeded change from /tmp/seed_out/<ID> (or /verif/seeded/<ID>) and run the check on it
set -u
ID=$1; shift
SRC=${SEED_SRC:-/tmp/seed_out/$ID}; [ -d "$SRC" ] || SRC=/verif/seeded/$ID
WT=/tmp/sc_$ID
export GOFLAGS=-mod=mod GOPROXY=off GOSUMDB=off GOTOOLCHAIN=local CGO_LDFLAGS=-L/verif/build/lib
git -C /repo worktree remove --force $WT 2>/dev/null
git -C /repo worktree add -q --detach $WT HEAD || exit 3
cd $WT
if ! git apply --check $SRC/patch.diff; then echo "SEED $ID: patch does not apply"; exit 3; fi
git apply $SRC/patch.diff
pk=$(git diff --name-only | xargs -n1 dirname | sort -u | sed 's#^#./#')
echo "SEED $ID: touched packages: $pk"
if go build $pk; then echo "SEED $ID: builds"; else echo "SEED $ID: BUILD FAILS"; fi
python3 /verif/tools/baseline.py $WT | head -3
echo "SEED $ID: running check on the changed tree"
cd /verif && VERIF_REPO=$WT timeout 3000 ./check $ID "$@" 2>&1 | grep -v "^KNOWN" | grep -E "key=|tier=|BUILD|INFRA|VIOLATION property" | cut -c1-260 | sort | uniq -c | sort -rn | head -8
# optional demonstration: DEMO_PKG=<package dir> DEMO_RUN=<regex>
if [ -n "${DEMO_PKG:-}" ]; then
  cd $WT
  mkdir -p $DEMO_PKG; cp $SRC/demo_test.go $DEMO_PKG/zz_seed_demo_test.go
  echo "SEED $ID: demonstration WITH the change:"; go test -vet=off -count=1 -run "$DEMO_RUN" ./$DEMO_PKG 2>&1 | grep -E "^(--- |ok|FAIL|PASS)" | sort | uniq -c | head -8
  git apply -R $SRC/patch.diff
  echo "SEED $ID: demonstration WITHOUT the change:"; go test -vet=off -count=1 -run "$DEMO_RUN" ./$DEMO_PKG 2>&1 | grep -E "^(--- |ok|FAIL|PASS)" | sort | uniq -c | head -8
fi
cd /verif; git -C /repo worktree remove --force $WT
# only this run's build copy: other seedchecks may be running
rm -rf /verif/build/harness-alt-$(printf %s "$WT" | sha1sum | cut -c1-8)
